CONSTANTS
  Nodes = {0, 1, 2, 3}
  Root = 0
SPECIFICATION Spec
INVARIANT Closure
INVARIANT OnceEach
INVARIANT RootLast
INVARIANT Ordered
INVARIANT VisitedSound
PROPERTY Terminates
CHECK_DEADLOCK FALSE
