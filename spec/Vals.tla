------------------------------- MODULE Vals -------------------------------
(***************************************************************************)
(* Values, exact rational arithmetic, 16-bit logic and byte strings shared  *)
(* by the Color BASIC and the BASIC09 semantics.                            *)
(*                                                                         *)
(* A value is a 3-tuple whose first component is a tag; tags are compared  *)
(* before payloads so that TLC never compares values of different shapes.  *)
(*   <<"num", n, d>>   the rational n/d, d > 0, gcd(n,d) = 1                *)
(*   <<"str", s, 0>>   a byte string, s \in Seq(0..255)                     *)
(*   <<"bool", b, 0>>  b \in {0,1}            (BASIC09 only)                *)
(*   <<"fmt", n, d>>   the text Color BASIC prints for the number n/d       *)
(*   <<"sym", 0, 0>>   a value this specification does not compute          *)
(*                     (transcendental, device dependent, out of range)     *)
(*   <<"undef", x, 0>> contents of BASIC09 variable x, never assigned        *)
(*   <<"err", c, 0>>   evaluation raised run-time error class c (a string)  *)
(* TLC integers are 32 bit: every rational whose numerator or denominator   *)
(* leaves [-Lim, Lim] degrades to "sym" (unjudged), never to a wrong value. *)
(***************************************************************************)
EXTENDS Integers, Sequences, FiniteSets, TLC, SequencesExt

Lim == 30000

AbsI(x) == IF x < 0 THEN -x ELSE x
RECURSIVE Gcd(_, _)
Gcd(a, b) == IF b = 0 THEN a ELSE Gcd(b, a % b)

Sym == <<"sym", 0, 0>>
Undef == <<"undef", "", 0>>
UndefOf(name) == <<"undef", name, 0>>
Err(c) == <<"err", c, 0>>
Str(s) == <<"str", s, 0>>
Bool(b) == <<"bool", IF b THEN 1 ELSE 0, 0>>
Fmt(v) == <<"fmt", v[2], v[3]>>

Q(n, d) == IF d = 0 THEN Err("div0")
           ELSE LET g == Gcd(AbsI(n), AbsI(d))
                    sg == IF d < 0 THEN -1 ELSE 1
                    nn == (sg * n) \div g
                    dd == (sg * d) \div g
                IN IF AbsI(nn) > Lim \/ dd > Lim THEN Sym ELSE <<"num", nn, dd>>
Num(n) == Q(n, 1)
Zero == <<"num", 0, 1>>

Tag(v) == v[1]
IsNum(v) == v[1] = "num"
IsStr(v) == v[1] = "str"
IsBool(v) == v[1] = "bool"
IsSym(v) == v[1] = "sym"
IsErr(v) == v[1] = "err"
IsInt(v) == v[1] = "num" /\ v[3] = 1
IsBad(v) == v[1] \in {"err", "sym", "undef"}
\* the worst of two non-ordinary operands: err > undef > sym
Worst(a, b) == IF a[1] = "err" THEN a ELSE IF b[1] = "err" THEN b
               ELSE IF a[1] = "undef" THEN a ELSE IF b[1] = "undef" THEN b
               ELSE IF a[1] = "sym" THEN a ELSE b

\* value equality that never compares payloads of different shapes
VEq(a, b) == a[1] = b[1] /\ a[2] = b[2] /\ a[3] = b[3]
\* agreement of two observed values: an uncomputed value agrees with anything
VAgree(a, b) == a[1] = "sym" \/ b[1] = "sym" \/ VEq(a, b)

RECURSIVE PowI(_, _)
PowI(a, n) == IF n = 0 THEN 1 ELSE a * PowI(a, n - 1)

Add(a, b) == Q(a[2] * b[3] + b[2] * a[3], a[3] * b[3])
Sub(a, b) == Q(a[2] * b[3] - b[2] * a[3], a[3] * b[3])
Mul(a, b) == Q(a[2] * b[2], a[3] * b[3])
Div(a, b) == IF b[2] = 0 THEN Err("div0") ELSE Q(a[2] * b[3], a[3] * b[2])
Neg(a) == <<"num", -a[2], a[3]>>
Pow(a, b) ==
  IF b[3] # 1 THEN (IF a[2] = 0 /\ b[2] > 0 THEN Zero ELSE Sym)
  ELSE IF b[2] = 0 THEN Num(1)
  ELSE IF a[2] = 0 THEN (IF b[2] < 0 THEN Err("div0") ELSE Zero)
  ELSE IF AbsI(b[2]) > 6 \/ AbsI(a[2]) > 12 \/ a[3] > 12 THEN Sym
  ELSE IF b[2] > 0 THEN Q(PowI(a[2], b[2]), PowI(a[3], b[2]))
  ELSE Q(PowI(a[3], -b[2]), PowI(a[2], -b[2]))
Floor(a) == Num(a[2] \div a[3])          \* \div floors for a positive divisor
Trunc(a) == IF a[2] >= 0 THEN Num(a[2] \div a[3]) ELSE Num(-((-a[2]) \div a[3]))
Sgn(a) == Num(IF a[2] > 0 THEN 1 ELSE IF a[2] < 0 THEN -1 ELSE 0)
AbsV(a) == <<"num", AbsI(a[2]), a[3]>>
Lt(a, b) == a[2] * b[3] < b[2] * a[3]
Rel(op, a, b) ==            \* on "num" values
  LET l == a[2] * b[3]  r == b[2] * a[3] IN
  CASE op = "=" -> l = r [] op = "<" -> l < r [] op = ">" -> l > r
    [] op \in {"<>", "><"} -> l # r [] op \in {"<=", "=<"} -> l <= r
    [] op \in {">=", "=>"} -> l >= r [] OTHER -> FALSE
IsRelOp(op) == op \in {"=", "<", ">", "<>", "><", "<=", "=<", ">=", "=>"}

(* ---- 16-bit two's complement logic ---- *)
ToU(x) == IF x < 0 THEN x + 65536 ELSE x
FromU(x) == IF x >= 32768 THEN x - 65536 ELSE x
RECURSIVE Bits(_, _, _, _)
Bits(f, a, b, n) ==
  IF n = 0 THEN 0
  ELSE 2 * Bits(f, a \div 2, b \div 2, n - 1)
       + (LET x == a % 2  y == b % 2 IN
          CASE f = "AND" -> IF x = 1 /\ y = 1 THEN 1 ELSE 0
            [] f = "OR" -> IF x = 1 \/ y = 1 THEN 1 ELSE 0
            [] OTHER -> IF x # y THEN 1 ELSE 0)
In16(x) == x >= -32768 /\ x <= 32767
Logic(f, a, b) ==           \* a, b integer-valued "num" within 16 bits
  IF ~IsInt(a) \/ ~IsInt(b) THEN Sym
  ELSE IF ~In16(a[2]) \/ ~In16(b[2]) THEN Err("range")
  ELSE Num(FromU(Bits(f, ToU(a[2]), ToU(b[2]), 16)))
LogicNot(a) == IF ~IsInt(a) THEN Sym ELSE IF ~In16(a[2]) THEN Err("range") ELSE Num(-a[2] - 1)

(* ---- byte strings ---- *)
StrLt(s, t) ==   \* lexicographic on bytes, a proper prefix is smaller
  \E k \in 1..Len(t) :
     /\ k - 1 <= Len(s)
     /\ \A j \in 1..(k - 1) : s[j] = t[j]
     /\ (Len(s) = k - 1 \/ (Len(s) >= k /\ s[k] < t[k]))
StrRel(op, s, t) ==
  CASE op = "=" -> s = t [] op \in {"<>", "><"} -> s # t
    [] op = "<" -> StrLt(s, t) [] op = ">" -> StrLt(t, s)
    [] op \in {"<=", "=<"} -> ~StrLt(t, s) [] op \in {">=", "=>"} -> ~StrLt(s, t)
    [] OTHER -> FALSE
Min2(a, b) == IF a < b THEN a ELSE b
Max2(a, b) == IF a > b THEN a ELSE b
Take(s, n) == SubSeq(s, 1, Min2(Max2(n, 0), Len(s)))
DropN(s, n) == SubSeq(s, Min2(Max2(n, 0), Len(s)) + 1, Len(s))
\* Color BASIC / BASIC09 agree on these for arguments in range
LeftS(s, n) == Take(s, n)
RightS(s, n) == DropN(s, Len(s) - Min2(Max2(n, 0), Len(s)))
MidS(s, p, n) == IF p < 1 THEN <<>> ELSE Take(DropN(s, p - 1), n)       \* 1-based
\* first position >= p at which t occurs in s, 0 if none (Color BASIC INSTR)
OccursAt(s, t, k) == k >= 1 /\ k + Len(t) - 1 <= Len(s) /\ SubSeq(s, k, k + Len(t) - 1) = t
InstrS(p, s, t) ==
  LET c == { k \in Max2(p, 1)..Len(s) : OccursAt(s, t, k) } IN
  IF c = {} THEN 0 ELSE CHOOSE k \in c : \A j \in c : k <= j
RepS(ch, n) == [i \in 1..Max2(n, 0) |-> ch]

(* decimal digits of a natural number, and the value of a digit string *)
RECURSIVE Digits(_)
Digits(n) == IF n < 10 THEN <<48 + n>> ELSE Digits(n \div 10) \o <<48 + (n % 10)>>
IsDigit(c) == c >= 48 /\ c <= 57
=============================================================================
