----------------------------- MODULE Trace_C15 -----------------------------
(***************************************************************************)
(* C15: any input is either converted or refused with a documented error.  *)
(* The conversion pipeline as a state machine: Parse, Build, the checking  *)
(* passes, Return -- each stage either hands on or takes the Refuse(kind)  *)
(* action of its documented refusal.  A recorded run is a behaviour of the *)
(* pipeline iff its outcome is in the alphabet below; an internal          *)
(* exception or a timeout is no action of any stage.  Where the input is   *)
(* known to lie inside the supported fragment the outcome must be "ok".    *)
(***************************************************************************)
EXTENDS Integers, Sequences, TLC, Json, IOUtils
Cases == JsonDeserialize(IOEnv.CASES)
Documented == {"ok", "grammar", "undefined-or-duplicate", "too-large", "config"}
\* stage -> refusals it may raise
Stages == <<"Parse", "Build", "CheckLines", "CheckHandlers", "LoadConfig", "Return">>
Refusals(stage) == CASE stage = "Parse" -> {"grammar"} [] stage = "CheckLines" -> {"too-large", "undefined-or-duplicate"}
                     [] stage = "CheckHandlers" -> {"undefined-or-duplicate"} [] stage = "LoadConfig" -> {"config"} [] OTHER -> {}
VARIABLES ci, stage, outcome, vd
PInit == ci \in 1..Len(Cases) /\ stage = 1 /\ outcome = "" /\ vd = [clause |-> "todo"]
Advance == outcome = "" /\ stage < Len(Stages) /\ stage' = stage + 1 /\ UNCHANGED <<ci, outcome, vd>>
Refuse(k) == outcome = "" /\ k \in Refusals(Stages[stage]) /\ outcome' = k /\ UNCHANGED <<ci, stage, vd>>
Return == outcome = "" /\ stage = Len(Stages) /\ outcome' = "ok" /\ UNCHANGED <<ci, stage, vd>>
\* the recorded outcome is matched against the behaviours of the machine
Judge == /\ outcome # "" /\ vd.clause = "todo"
         /\ vd' = LET got == Cases[ci].outcome  want == Cases[ci].expect IN
                  IF got \notin Documented THEN [clause |-> "alphabet", ok |-> FALSE, key |-> "undocumented-outcome:" \o got \o ":" \o Cases[ci].situation]
                  ELSE IF got # outcome THEN [clause |-> "skip", ok |-> TRUE, key |-> ""]
                  ELSE IF want = "ok" /\ got # "ok" THEN [clause |-> "wrong-outcome", ok |-> FALSE, key |-> "wrong-outcome:program-in-fragment-refused:" \o got]
                  ELSE IF want = "refuse" /\ got = "ok" THEN [clause |-> "wrong-outcome", ok |-> FALSE, key |-> "wrong-outcome:accepted-but-must-be-refused:" \o Cases[ci].situation]
                  ELSE [clause |-> "ok", ok |-> TRUE, key |-> ""]
         /\ UNCHANGED <<ci, stage, outcome>>
\* an outcome outside the alphabet matches no behaviour: judged directly
JudgeAlien == /\ outcome = "" /\ stage = 1 /\ vd.clause = "todo" /\ Cases[ci].outcome \notin Documented
              /\ vd' = [clause |-> "alphabet", ok |-> FALSE, key |-> "undocumented-outcome:" \o Cases[ci].outcome \o ":" \o Cases[ci].situation]
              /\ UNCHANGED <<ci, stage, outcome>>
PNext == Advance \/ (\E k \in Documented : Refuse(k)) \/ Return \/ Judge \/ JudgeAlien
\* every refusal the machine can take is documented, and it always ends
OutcomeDocumented == outcome = "" \/ outcome \in Documented
=============================================================================
