INIT MInit
NEXT MNext
INVARIANT Accepts
INVARIANT LeadingZero
INVARIANT TrailingZero
INVARIANT PointAtEnd
INVARIANT ExponentAsZeros
INVARIANT LetterCaseAndBlanks
INVARIANT DoubleSign
INVARIANT Canonical
CHECK_DEADLOCK FALSE
