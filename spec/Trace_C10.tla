----------------------------- MODULE Trace_C10 -----------------------------
(***************************************************************************)
(* C10: every array and string gets exactly one declaration with the       *)
(* requested size.  A scan walks the statements of the emitted text in     *)
(* textual order; expected extents and sizes are computed from the parse   *)
(* of the source and the options.                                          *)
(*  once        no identifier is declared twice                            *)
(*  before-use  an array / sized string is declared before its first use   *)
(*  extent      source bound + 1 per dimension; 11 per dimension (and the  *)
(*              rank it is used with) for an array the source never DIMs   *)
(*  sized       default size # 32: every string scalar, string array and   *)
(*              string temporary that appears is declared STRING[n], n =   *)
(*              configured size if DIMensioned in the source and           *)
(*              configured, otherwise the requested default                *)
(***************************************************************************)
EXTENDS Refine
Cases == JsonDeserialize(IOEnv.CASES)

\* all variable occurrences of a tree: <<name, "var"|"idx", rank, ty>>
RECURSIVE Occ(_)
OccSeq(ts) == UNION { Occ(ts[k]) : k \in 1..Len(ts) }
Occ(tr) ==
  CASE tr[1] = "var" -> {<<tr[2], "var", 0, tr[3]>>}
    [] tr[1] = "idx" -> {<<tr[2], "idx", Len(tr[3]), tr[4]>>} \cup OccSeq(tr[3])
    [] tr[1] = "call" -> OccSeq(tr[3])
    [] tr[1] = "un" -> Occ(tr[3]) [] tr[1] = "par" -> Occ(tr[2])
    [] tr[1] = "bin" -> Occ(tr[3]) \cup Occ(tr[4])
    [] OTHER -> {}
InsOcc(ins) == IF ins.op \in {"DIM", "PARAM", "TYPE", "DATA", "REM", "PROC", "BASE"} THEN {}
               ELSE Occ(ins.e) \cup Occ(ins.e2) \cup Occ(ins.e3) \cup (IF ins.op = "ONGO" THEN {} ELSE OccSeq(ins.a))
                    \cup (IF ins.op \in {"FOR", "NEXT"} THEN {<<ins.x, "var", 0, "">>} ELSE {})
\* declarations in text order: <<pc, name, dims, <<type, size>>>>
DeclList(code) == FoldLeft(LAMBDA acc, q : IF code[q].op = "DIM" THEN acc \o [k \in 1..Len(code[q].a) |-> <<q, code[q].a[k][2], code[q].a[k][3], code[q].a[k][4]>>] ELSE acc,
                           <<>>, [q \in 1..Len(code) |-> q])
FirstUse(code, name) == LET c == { q \in 1..Len(code) : \E o \in InsOcc(code[q]) : o[1] = name } IN
                        IF c = {} THEN 0 ELSE CHOOSE q \in c : \A j \in c : q <= j
\* ---- source side ----
SrcDims(dcode) == FoldLeft(LAMBDA acc, ins : IF ins.op = "DIM" THEN acc \o ins.a ELSE acc, <<>>, dcode)     \* decl trees
SrcOcc(dcode) == UNION { InsOcc(dcode[q]) : q \in 1..Len(dcode) }
IsDimmed(sd, name, arr) == \E k \in 1..Len(sd) : sd[k][2] = name /\ (sd[k][3] # <<>>) = arr
CfgSize(cs, name, arr) == LET c == { k \in 1..Len(cs.cfg) : cs.cfg[k].name = name /\ cs.cfg[k].arr = arr } IN
                          IF c = {} THEN 0 ELSE cs.cfg[CHOOSE k \in c : TRUE].size

\* how the source uses the variable a target identifier stands for (second half of a finding's key)
TargetsOf(dcode) == UNION { { <<dcode[q].a[k][2], dcode[q].a[k][1]>> : k \in 1..Len(dcode[q].a) } : q \in { j \in 1..Len(dcode) : dcode[j].op \in {"READ", "INPUT"} } }
ElseOcc(dcode) == UNION { InsOcc(dcode[q]) : q \in { j \in 1..Len(dcode) : dcode[j].op \notin {"READ", "INPUT"} } }
SrcUse(dcode, sd, o) ==
  LET arr == o[2] = "idx"
      cands == { x \in SrcOcc(dcode) : TargetName(x[1], x[2] = "idx") = o[1] /\ (x[2] = "idx") = arr }
      sname == IF cands = {} THEN "" ELSE (CHOOSE x \in cands : TRUE)[1] IN
  IF sname = "" THEN "generated"
  ELSE IF IsDimmed(sd, sname, arr) THEN "dimensioned"
  ELSE IF ~\E x \in ElseOcc(dcode) : x[1] = sname /\ x[2] = o[2] THEN "only-READ-INPUT-target"      \* the target itself or inside its subscripts
  ELSE IF arr THEN "implicit-array" ELSE "other"
V10(ok, clause, key, detail) == [ok |-> ok, clause |-> clause, key |-> key, detail |-> detail]
Verdict(cs) ==
  LET dp0 == DProg(cs.src)  bp0 == BProg(cs.out) IN
  IF ~dp0.ok THEN V10(TRUE, "machinery", "src-parse", ToString(dp0.errln))
  ELSE IF ~bp0.ok THEN V10(TRUE, "unjudged", "target-does-not-parse", bp0.err)       \* C07's business
  ELSE
  LET code == bp0.code
      decls == DeclList(code)
      names == [k \in 1..Len(decls) |-> decls[k][2]]
      dupl == { k \in 1..Len(decls) : \E j \in 1..(k - 1) : names[j] = names[k] }
      sd == SrcDims(dp0.code)
      socc == SrcOcc(dp0.code)
      tocc == UNION { InsOcc(code[q]) : q \in 1..Len(code) }
      DeclOf(name) == LET c == { k \in 1..Len(decls) : names[k] = name } IN IF c = {} THEN <<0, "", <<>>, <<"", 0>>>> ELSE decls[CHOOSE k \in c : \A j \in c : k <= j]
      \* arrays the source uses: explicit (with bounds) and implicit (rank of use)
      srcArrays == { o \in socc : o[2] = "idx" }
      badExtent == { o \in srcArrays :
                      LET d == DeclOf(TargetName(o[1], TRUE))
                          sdk == { k \in 1..Len(sd) : sd[k][2] = o[1] /\ sd[k][3] # <<>> }
                          want == IF sdk = {} THEN [j \in 1..o[3] |-> 11]
                                  ELSE LET b == sd[CHOOSE k \in sdk : TRUE][3] IN [j \in 1..Len(b) |-> b[j] + 1] IN
                      d[1] # 0 /\ d[3] # want }
      undeclared == { o \in srcArrays : DeclOf(TargetName(o[1], TRUE))[1] = 0 }
      late == { o \in tocc : o[2] = "idx" /\ DeclOf(o[1])[1] # 0 /\ FirstUse(code, o[1]) < DeclOf(o[1])[1] }
      \* strings that appear in the target
      strs == { o \in tocc : o[4] = "$" }
      WantOf(o) == LET arr == o[2] = "idx"
                       \* the source variable this identifier stands for (arrays carry the ARR_ prefix)
                       cands == { x \in socc : x[4] = "$" /\ TargetName(x[1], x[2] = "idx") = o[1] /\ (x[2] = "idx") = arr }
                       sname == IF cands = {} THEN "" ELSE (CHOOSE x \in cands : TRUE)[1]
                       cfg == IF sname # "" /\ IsDimmed(sd, sname, arr) THEN CfgSize(cs, sname, arr) ELSE 0 IN
                   IF cfg # 0 THEN cfg ELSE cs.strsize
      OkSize(o) == LET d == DeclOf(o[1])  want == WantOf(o) IN
                   \/ d[1] # 0 /\ d[4][1] = "STRING" /\ d[4][2] = want
                   \/ want = 32 /\ (d[1] = 0 \/ d[4][1] = "")          \* BASIC09's implicit STRING[32]
      badSize == { o \in strs : ~OkSize(o) }
      lateStr == { o \in strs : DeclOf(o[1])[1] # 0 /\ DeclOf(o[1])[4][1] = "STRING" /\ FirstUse(code, o[1]) < DeclOf(o[1])[1] } IN
  IF dupl # {} THEN V10(FALSE, "once", "once:declared-twice:" \o names[CHOOSE k \in dupl : TRUE], "")
  ELSE IF undeclared # {} THEN LET o == CHOOSE x \in undeclared : TRUE IN
       V10(FALSE, "declared", "declared:array-never-declared:src-use=" \o
           (IF ~\E x \in ElseOcc(dp0.code) : x[1] = o[1] /\ x[2] = "idx"       \* occurs only as a READ/INPUT target or inside the subscripts of one
            THEN "READ-INPUT-target" ELSE "expression"), o[1])
  ELSE IF badExtent # {} THEN LET o == CHOOSE x \in badExtent : TRUE IN
       V10(FALSE, "extent", "extent:" \o (IF IsDimmed(sd, o[1], TRUE) THEN "dimensioned" ELSE "implicit:rank=" \o ToString(o[3])), o[1])
  ELSE IF late # {} THEN V10(FALSE, "before-use", "before-use:array", (CHOOSE x \in late : TRUE)[1])
  ELSE IF badSize # {} THEN
       LET o == CHOOSE x \in badSize : TRUE
           d == DeclOf(o[1]) IN
       V10(FALSE, "sized", "sized:" \o (IF d[1] = 0 THEN "no-declaration" ELSE IF d[4][1] # "STRING" THEN "declared-without-size" ELSE "wrong-size") \o
                 ":" \o (IF o[1] \in TmpNames THEN "temporary" ELSE IF o[2] = "idx" THEN "string-array" ELSE "string-scalar") \o
                 ":src-use=" \o SrcUse(dp0.code, sd, o), o[1] \o " has " \o ToString(d[4][2]) \o " want " \o ToString(WantOf(o)))
  ELSE IF lateStr # {} THEN V10(FALSE, "before-use", "before-use:string", (CHOOSE x \in lateStr : TRUE)[1])
  ELSE V10(TRUE, "ok", "", "")
VARIABLES ci, vd
Init == ci \in 1..Len(Cases) /\ vd = [clause |-> "todo"]
Next == vd.clause = "todo" /\ vd' = Verdict(Cases[ci]) /\ UNCHANGED ci
=============================================================================
