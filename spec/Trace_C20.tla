----------------------------- MODULE Trace_C20 -----------------------------
(***************************************************************************)
(* C20: the bundled string helpers compute the Color BASIC function they   *)
(* stand for.  The text of ecb_instr, ecb_string and ecb_read_filter is    *)
(* taken from the library of the working tree (module Lib), parsed by the  *)
(* BASIC09 grammar and EXECUTED on the BASIC09 machine (module Machine)    *)
(* for every argument tuple of the space below -- model checking of a      *)
(* BASIC09 program for all its inputs.  The result parameter is compared   *)
(* with the definition of the Color BASIC function (module Vals: InstrS,   *)
(* RepS; Machine: TextVal).                                                *)
(*                                                                         *)
(* Where BASIC09's definition is uncertain (a FOR loop whose start is      *)
(* beyond its end) the procedure is run under both answers; a tuple whose  *)
(* verdict depends on the answer is unjudged.                              *)
(***************************************************************************)
EXTENDS Refine
CONSTANTS Alphabet, MaxLenS, MaxStart, MaxCount, StrSize0
Strings(n) == UNION { [1..k -> Alphabet] : k \in 0..n }
\* read filter: texts over the characters of a numeric DATA item
\* (digits, point, signs, exponent letter, blank; texts that are not numbers are left unjudged by TextVal)
NumChars == IF MaxLenS >= 4 THEN {48, 49, 57, 46, 45, 43, 69, 32} ELSE {48, 49, 57, 46, 45, 69}
Texts == UNION { [1..k -> NumChars] : k \in 0..(IF MaxLenS >= 4 THEN 5 ELSE 4) }

\* ---- running one library procedure ----
ProcCode(name) == LibProc(name).prog
CallProc(name, argvals, ztp) ==
  LET prog0 == ProcCode(name)
      prog == [code |-> prog0.code, lab |-> prog0.lab, data |-> <<>>]
      ps == ParamDecls(prog0.code)
      env0 == FoldLeft(LAMBDA e, k : IF argvals[k][1] = "undef" THEN e ELSE Put(e, ps[k][2], argvals[k]), EmptyF, [k \in 1..Len(ps) |-> k])
      cls(ty) == IF ty[1] = "STRING" THEN "str" ELSE IF ty[1] = "BOOLEAN" THEN "bool" ELSE "num"
      loaded == Load(prog.code, St0(<<>>, <<>>))
      decls == FoldLeft(LAMBDA f, k : LET f1 == Put(f, "type:" \o ps[k][2], cls(ps[k][4])) IN
                                      IF ps[k][4][1] = "STRING" THEN Put(f1, "size:" \o ps[k][2], IF ps[k][4][2] < 0 THEN StrSize0 ELSE ps[k][4][2]) ELSE f1,
                        loaded.fl, [k \in 1..Len(ps) |-> k])
      st0 == [loaded EXCEPT !.env = env0, !.fl = decls, !.ztp = ztp, !.cut = TRUE]
      fin == Run(prog, "b09", st0, 4000) IN
  [status |-> fin.status, why |-> fin.why, env |-> fin.env, names |-> [k \in 1..Len(ps) |-> ps[k][2]]]
ResultOf(r) == LET nm == r.names[Len(r.names)] IN IF nm \in DOMAIN r.env THEN r.env[nm] ELSE Undef

V20(ok, clause, key, detail) == [ok |-> ok, clause |-> clause, key |-> key, detail |-> detail]
Show(v) == IF v[1] = "num" THEN ToString(v[2]) \o (IF v[3] # 1 THEN "/" \o ToString(v[3]) ELSE "") ELSE IF v[1] = "str" THEN ToString(v[2]) ELSE v[1]
\* compare one run with the expected value ("error" for an argument Color BASIC rejects)
Outcome(r, want) ==
  IF r.status = "run" THEN "does-not-terminate"
  ELSE IF r.status = "error" THEN (IF want[1] = "err" THEN "ok" ELSE "raises-error")
  ELSE IF r.status \in {"unjudged", "undef"} THEN "unjudged:" \o r.why
  ELSE IF want[1] = "err" THEN "no-error-for-illegal-argument"
  ELSE LET got == ResultOf(r) IN
       IF got[1] = "undef" THEN "result-left-unassigned"
       ELSE IF VEq(got, want) THEN "ok" ELSE "wrong-value"
Judge2(name, args, want, what) ==
  LET top == Outcome(CallProc(name, args, "top"), want)
      bot == Outcome(CallProc(name, args, "bottom"), want) IN
  IF top = "ok" /\ bot = "ok" THEN V20(TRUE, "ok", "", what)
  ELSE IF top # bot THEN V20(TRUE, "unjudged", "depends-on-FOR-zero-trip:" \o name, what \o " top=" \o top \o " bottom=" \o bot)
  ELSE IF top \in {"unjudged:for-zero-trip"} THEN V20(TRUE, "unjudged", top, what)
  ELSE V20(FALSE, name, name \o ":" \o top, what \o " want " \o Show(want) \o " got " \o Show(ResultOf(CallProc(name, args, "top"))))

VARIABLES fn, a1, a2, a3, vd
Init == /\ vd = [clause |-> "todo"]
        /\ \/ fn = "ECB_INSTR" /\ a1 \in 1..MaxStart /\ a2 \in Strings(MaxLenS) /\ a3 \in Strings(MaxLenS) \ {<<>>}
           \/ fn = "ECB_STRING" /\ a1 \in 0..MaxCount /\ a2 \in Strings(2) \ {<<>>} /\ a3 = <<>>
           \/ fn = "ECB_READ_FILTER" /\ a1 = 0 /\ a2 \in Texts /\ a3 = <<>>
Next == /\ vd.clause = "todo"
        /\ vd' = CASE fn = "ECB_INSTR" -> Judge2(fn, <<Num(a1), Str(a2), Str(a3), Undef>>, Num(InstrS(a1, a2, a3)),
                                                 "INSTR(" \o ToString(a1) \o "," \o ToString(a2) \o "," \o ToString(a3) \o ")")
                   [] fn = "ECB_STRING" -> Judge2(fn, <<Num(a1), Str(a2), Undef>>, Str(Take(RepS(a2[1], a1), StrSize0)),
                                                  "STRING$(" \o ToString(a1) \o "," \o ToString(a2) \o ")")
                   [] OTHER -> LET w == TextVal(a2) IN
                               IF IsSym(w) THEN V20(TRUE, "unjudged", "text-not-modelled", ToString(a2))
                               ELSE Judge2(fn, <<Str(a2), Undef>>, w, "item " \o ToString(a2))
        /\ UNCHANGED <<fn, a1, a2, a3>>
=============================================================================
