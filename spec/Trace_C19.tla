----------------------------- MODULE Trace_C19 -----------------------------
(* C19 validation of recorded runs on damaged inputs (see module Faults). *)
EXTENDS Integers, Sequences, TLC, Json, IOUtils
Cases == JsonDeserialize(IOEnv.CASES)
Spp(fmt) == IF fmt \in {"PIX", "VEF"} THEN 1 ELSE 3
V(ok, clause, key, detail) == [ok |-> ok, clause |-> clause, key |-> key, detail |-> detail]
Verdict(cs) ==
  LET g == cs.got
      failed == g.status # "ok" \/ ~g.outexists
      complete == g.readable /\ g.nsamples = g.w * g.h * Spp(cs.fmt) IN
  IF g.status = "timeout" THEN V(FALSE, "terminates", "terminates:" \o cs.fmt \o ":" \o cs.fault, cs.what)
  ELSE IF failed \/ complete THEN V(TRUE, IF failed THEN "reported" ELSE "complete", "", "")
  ELSE V(FALSE, "silent", "silent:" \o cs.fmt \o ":success-with-" \o
          (IF ~g.readable THEN "unreadable-output" ELSE IF g.nsamples < g.w * g.h * Spp(cs.fmt) THEN "fewer-samples-than-announced" ELSE "more-samples-than-announced") \o
          ":fault=" \o cs.fault \o cs.where,
          cs.what \o ": " \o ToString(g.nsamples) \o " of " \o ToString(g.w * g.h * Spp(cs.fmt)))
VARIABLES ci, vd
Init == ci \in 1..Len(Cases) /\ vd = [clause |-> "todo"]
Next == vd.clause = "todo" /\ vd' = Verdict(Cases[ci]) /\ UNCHANGED ci
=============================================================================
