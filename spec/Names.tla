-------------------------------- MODULE Names --------------------------------
(***************************************************************************)
(* C09: variable identity.  A Color BASIC variable is identified by its    *)
(* first two characters, its type suffix and its kind (scalar / array).    *)
(* The translator's naming convention, stated once here over byte          *)
(* sequences:  scalar XY.. -> XY, string XY..$ -> XY$, arrays get the      *)
(* prefix arr_.  (M) TLC checks over a whole (small-alphabet) name space   *)
(* that the convention is a function of the Color BASIC identity, is       *)
(* injective on identities, and never produces a generated identifier.     *)
(* Trace_C09 then checks that the identifiers of real outputs are exactly  *)
(* the images of the source variables under this convention.               *)
(***************************************************************************)
EXTENDS Integers, Sequences, FiniteSets, TLC

Dollar == 36
Upper(c) == IF c >= 97 /\ c <= 122 THEN c - 32 ELSE c
UpperS(s) == [k \in 1..Len(s) |-> Upper(s[k])]
IsStrName(nm) == nm # <<>> /\ nm[Len(nm)] = Dollar
Base(nm) == IF IsStrName(nm) THEN SubSeq(nm, 1, Len(nm) - 1) ELSE nm
\* what Color BASIC distinguishes
DecbId(nm, arr) == <<SubSeq(Base(nm), 1, IF Len(Base(nm)) < 2 THEN Len(Base(nm)) ELSE 2), IsStrName(nm), arr>>
ArrPrefix == <<65, 82, 82, 95>>          \* "ARR_"  (BASIC09 identifiers are case-insensitive; compared upper-cased)
Target(nm, arr) == (IF arr THEN ArrPrefix ELSE <<>>) \o DecbId(nm, arr)[1] \o (IF IsStrName(nm) THEN <<Dollar>> ELSE <<>>)

\* identifiers the translator generates itself (upper-cased): tmp_<n>[$], display, play, pid, erno, errnum, joy..
TmpPrefix == <<84, 77, 80, 95>>
StartsWith(s, p) == Len(s) >= Len(p) /\ SubSeq(s, 1, Len(p)) = p
IsGeneratedShape(s) == StartsWith(s, TmpPrefix) \/ Len(Base(s)) > 2 + (IF StartsWith(s, ArrPrefix) THEN 4 ELSE 0)

(* ---- (M) the name space as a state space: TLC builds every name up to MaxLen over a small alphabet ---- *)
CONSTANTS NmLetters, NmDigits, MaxLen
VARIABLES n1, n2, a1, a2
Init == n1 = <<>> /\ n2 = <<>> /\ a1 \in BOOLEAN /\ a2 \in BOOLEAN
Grow(n) == \/ n = <<>> /\ \E c \in NmLetters : n' = <<c>>
           \/ n # <<>> /\ ~IsStrName(n) /\ Len(n) < MaxLen /\ \E c \in NmLetters \cup NmDigits \cup {Dollar} : n' = Append(n, c)
Next == \/ Grow(n1) /\ UNCHANGED <<n2, a1, a2>>
        \/ n1 # <<>> /\ (LET n == n2 IN \/ n = <<>> /\ \E c \in NmLetters : n2' = <<c>>
                                        \/ n # <<>> /\ ~IsStrName(n) /\ Len(n) < MaxLen /\ \E c \in NmLetters \cup NmDigits \cup {Dollar} : n2' = Append(n, c))
           /\ UNCHANGED <<n1, a1, a2>>
Spec == Init /\ [][Next]_<<n1, n2, a1, a2>>
Both == n1 # <<>> /\ n2 # <<>>
\* same Color BASIC variable <=> same target identifier
Faithful == Both => ((DecbId(n1, a1) = DecbId(n2, a2)) <=> (Target(n1, a1) = Target(n2, a2)))
\* a user variable never looks like a generated identifier
NoCollision == n1 # <<>> => ~IsGeneratedShape(Target(n1, a1))
=============================================================================
