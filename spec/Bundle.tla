-------------------------------- MODULE Bundle --------------------------------
(***************************************************************************)
(* C13, design level: the set of procedures to bundle with a program.      *)
(* Procedures are nodes, RUN statements are edges.  The implementation     *)
(* computes the set with a recursive worklist; this module states the      *)
(* algorithm as a state machine (Visit pops a pending node, marks it and   *)
(* pushes its successors) and TLC checks, for EVERY graph over the node    *)
(* set, that it terminates with exactly the nodes reachable from the root  *)
(* and that the output order "sorted dependencies, then the root" lists    *)
(* every needed procedure once.  The same graphs are then rendered to      *)
(* synthetic libraries and pushed through the real ProcedureBank           *)
(* (Trace_C13).                                                            *)
(***************************************************************************)
EXTENDS Integers, Sequences, FiniteSets, TLC, SequencesExt
CONSTANTS Nodes, Root          \* Nodes \subseteq Nat, Root \in Nodes
VARIABLES edges, pending, visited, out
vars == <<edges, pending, visited, out>>

Succ(E, n) == { m \in Nodes : <<n, m>> \in E }
RECURSIVE ReachFrom(_, _, _)
ReachFrom(E, seen, frontier) ==
  IF frontier = {} THEN seen
  ELSE LET nxt == (UNION { Succ(E, n) : n \in frontier }) \ (seen \cup frontier) IN ReachFrom(E, seen \cup frontier, nxt)
Reachable(E) == ReachFrom(E, {}, {Root})

Init == /\ edges \in SUBSET { <<a, b>> \in Nodes \X Nodes : TRUE }
        /\ pending = <<Root>> /\ visited = {} /\ out = <<>>
Visit == /\ pending # <<>>
         /\ LET n == pending[Len(pending)]  rest == SubSeq(pending, 1, Len(pending) - 1) IN
            IF n \in visited THEN pending' = rest /\ UNCHANGED <<visited, out>>
            ELSE /\ visited' = visited \cup {n}
                 /\ pending' = rest \o SetToSeq(Succ(edges, n))
                 /\ UNCHANGED out
         /\ UNCHANGED edges
\* output: dependencies in ascending order, the root last
SortedSeq(S) == LET n == Cardinality(S) IN [k \in 1..n |-> CHOOSE x \in S : Cardinality({ y \in S : y < x }) = k - 1]
Emit == /\ pending = <<>> /\ out = <<>> /\ visited # {}
        /\ out' = SortedSeq(visited \ {Root}) \o <<Root>>
        /\ UNCHANGED <<edges, pending, visited>>
Next == Visit \/ Emit
Spec == Init /\ [][Next]_vars /\ WF_vars(Next)

SetToSeqOK == TRUE
Closure == out # <<>> => { out[k] : k \in 1..Len(out) } = Reachable(edges)
OnceEach == \A i, j \in 1..Len(out) : i # j => out[i] # out[j]
RootLast == out # <<>> => out[Len(out)] = Root
Ordered == \A i, j \in 1..(Len(out) - 1) : i < j => out[i] < out[j]
VisitedSound == visited \subseteq Reachable(edges)
Terminates == <>(out # <<>>)
=============================================================================
