CONSTANTS
  Format = "CM3"
  W = 8
  NLines = 1
  VefType = 0
  Kinds = {"const", "halves", "noise", "same", "poke", "stripes"}
  PalSet = {0}
  Vals = {1, 7}
  Strategies = {"raw", "prefer-left", "prefer-up", "literal", "alternate"}
  Pages = {2}
  Motifs = {TRUE}
SPECIFICATION Spec
INVARIANT RoundTrip
INVARIANT Complete
CHECK_DEADLOCK FALSE
