------------------------------- MODULE DimsGen -------------------------------
(* Generator for C18: the option space of the decoders with size options -- every combination of a width, a     *)
(* height (0 = not given) and a skip count from the given sets; TLC enumerates it as its set of initial states. *)
EXTENDS Integers
CONSTANTS Widths, Heights, Skips
VARIABLES w, h, skip
Init == w \in Widths /\ h \in Heights /\ skip \in Skips
Next == UNCHANGED <<w, h, skip>>
InRange == w > 0 /\ h >= 0 /\ skip >= 0
=============================================================================
