----------------------------- MODULE Trace_C13 -----------------------------
(***************************************************************************)
(* C13: the emitted bundle contains exactly the procedures the program     *)
(* needs.  The bundle text is parsed by the BASIC09 grammar (module B09),  *)
(* so RUN statements, headers and placeholders are recognised by syntax -- *)
(* a RUN inside a string literal, a DATA item or a comment is not a call.  *)
(*   root-last, unique, order (dependencies ascending by name)             *)
(*   closed    every RUN target is in the bundle or an OS-9 system module  *)
(*   minimal   every bundled procedure is reachable from the user's        *)
(*             procedure through RUN statements                            *)
(*   library   every bundled dependency is the library's procedure, token  *)
(*             for token, with each STRING<<>> replaced by the size        *)
(*   user-text-intact  the user's procedure equals the output produced     *)
(*             without dependencies (string literals, DATA, comments kept) *)
(***************************************************************************)
EXTENDS Refine
Cases == JsonDeserialize(IOEnv.CASES)
SystemModules == {"GFX", "GFX2", "SYSCALL", "INKEY"}

RunTargets(code) == { code[q].x : q \in { j \in 1..Len(code) : code[j].op = "RUN" } }
NonBlank(lines) == SelectSeq(lines, LAMBDA t : t # <<>>)
TokEq(a, b) == a.k = b.k /\ a.v = b.v /\ a.n = b.n /\ a.d = b.d /\ a.s = b.s
LineEq(x, y) == Len(x) = Len(y) /\ \A k \in 1..Len(x) : TokEq(x[k], y[k])
LinesEq(xs, ys) == Len(xs) = Len(ys) /\ \A k \in 1..Len(xs) : LineEq(xs[k], ys[k])
\* library line with the placeholder replaced by the requested size
SizeToks(size) == IF size = 32 THEN <<>>
                  ELSE << [k |-> "op", v |-> "[", n |-> 0, d |-> 1, s |-> <<>>, o |-> <<>>],
                          [k |-> "int", v |-> ToString(size), n |-> size, d |-> 1, s |-> <<>>, o |-> <<>>],
                          [k |-> "op", v |-> "]", n |-> 0, d |-> 1, s |-> <<>>, o |-> <<>>] >>
Subst(line, size) == FoldLeft(LAMBDA acc, tk : IF tk.k = "op" /\ tk.v = "<<>>" THEN acc \o SizeToks(size) ELSE Append(acc, tk), <<>>, line)
HasPlaceholder(lines) == \E i \in 1..Len(lines) : \E k \in 1..Len(lines[i]) : lines[i][k].k = "op" /\ lines[i][k].v = "<<>>"

\* reachability over the parsed bundle
RECURSIVE Reach(_, _, _)
Reach(succ, seen, frontier) ==
  IF frontier = {} THEN seen
  ELSE LET nxt == (UNION { succ[n] : n \in frontier \cap DOMAIN succ }) \ (seen \cup frontier) IN Reach(succ, seen \cup frontier, nxt)

V13(ok, clause, key, detail) == [ok |-> ok, clause |-> clause, key |-> key, detail |-> detail]
Verdict(cs) ==
  LET fs == BFile(cs.out)
      n == Len(fs)
      names == [k \in 1..n |-> fs[k].name]
      onames == [k \in 1..n |-> cs.out[fs[k].first][2].o]       \* original spelling, for the order clause
      lib == IF cs.libkind = "real" THEN LibFile ELSE BFile(cs.lib)
      liblines == IF cs.libkind = "real" THEN LibToks ELSE cs.lib
      libnames == { lib[k].name : k \in 1..Len(lib) }
      LibIdx(nm) == CHOOSE k \in 1..Len(lib) : lib[k].name = nm
      succ == [nm \in { names[k] : k \in 1..n } |-> RunTargets(fs[CHOOSE k \in 1..n : names[k] = nm].prog.code)]
      badparse == { k \in 1..n : ~fs[k].prog.ok } IN
  IF n = 0 THEN V13(FALSE, "root-last", "root-last:no-procedure-in-output", "")
  ELSE IF \E k \in 1..(fs[1].first - 1) : cs.out[k] # <<>> THEN V13(FALSE, "header", "header:text-before-first-procedure", "")
  ELSE IF names[n] # cs.root THEN V13(FALSE, "root-last", "root-last:last-procedure-is-not-the-program", names[n])
  ELSE IF \E i, j \in 1..n : i < j /\ names[i] = names[j] THEN V13(FALSE, "unique", "unique:procedure-twice", "")
  ELSE IF \E i \in 1..(n - 2) : ~StrLt(onames[i], onames[i + 1]) THEN V13(FALSE, "order", "order:dependencies-not-ascending", "")
  ELSE IF HasPlaceholder(cs.out) THEN V13(FALSE, "placeholder", "placeholder:left-in-output", "")
  \* (needs no parse: the program part of the bundle against the same conversion without dependencies)
  ELSE IF ~LinesEq(NonBlank(SubSeq(cs.out, fs[n].first + 1, fs[n].last)), NonBlank(cs.plain)) THEN
       V13(FALSE, "user-text-intact", "user-text-intact:program-text-changed-by-bundling", "")
  ELSE IF badparse # {} THEN V13(TRUE, "unjudged", "bundle-member-does-not-parse", fs[CHOOSE k \in badparse : TRUE].name)
  ELSE IF \E k \in 1..n : RunTargets(fs[k].prog.code) \ ({ names[j] : j \in 1..n } \cup SystemModules) # {} THEN
       LET k == CHOOSE x \in 1..n : RunTargets(fs[x].prog.code) \ ({ names[j] : j \in 1..n } \cup SystemModules) # {} IN
       V13(FALSE, "closed", "closed:RUN-of-a-procedure-not-in-the-bundle" \o (IF k = n THEN ":from-program" ELSE ":from-library"),
           names[k] \o " -> " \o (CHOOSE t \in RunTargets(fs[k].prog.code) \ ({ names[j] : j \in 1..n } \cup SystemModules) : TRUE))
  ELSE IF { names[k] : k \in 1..n } \ Reach(succ, {}, {cs.root}) # {} THEN
       LET extra == CHOOSE x \in { names[k] : k \in 1..n } \ Reach(succ, {}, {cs.root}) : TRUE IN
       V13(FALSE, "minimal", "minimal:unreachable-procedure-bundled" \o (IF cs.mentions # "" THEN ":name-occurs-in=" \o cs.mentions ELSE ""), extra)
  ELSE IF \E k \in 1..(n - 1) : names[k] \notin libnames THEN V13(FALSE, "library", "library:unknown-procedure", "")
  ELSE IF \E k \in 1..(n - 1) :
            LET L == lib[LibIdx(names[k])]
                want == NonBlank([i \in 1..(L.last - L.first + 1) |-> Subst(liblines[L.first + i - 1], cs.size)])
                got == NonBlank(SubSeq(cs.out, fs[k].first, fs[k].last)) IN ~LinesEq(want, got) THEN
       V13(FALSE, "library", "library:procedure-text-differs-or-placeholder-wrong", "")
  ELSE V13(TRUE, "ok", "", ToString(n))
VARIABLES ci, vd
Init == ci \in 1..Len(Cases) /\ vd = [clause |-> "todo"]
Next == vd.clause = "todo" /\ vd' = Verdict(Cases[ci]) /\ UNCHANGED ci
=============================================================================
