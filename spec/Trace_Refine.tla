---------------------------- MODULE Trace_Refine ----------------------------
(* Batch trace validation for the behavioural properties (C01-C05): each   *)
(* case carries the source program (token lines), the text the real        *)
(* translator produced for it (token lines), the option bits that matter   *)
(* for judging, and the input/device scripts to run both programs under.   *)
(* The runtime library's parameter lists are computed here from the        *)
(* library text of the working tree.                                       *)
EXTENDS Refine
Cases == JsonDeserialize(IOEnv.CASES)
VARIABLES ci, vd
Init == ci \in 1..Len(Cases) /\ vd = [clause |-> "todo"]
Next == vd.clause = "todo" /\ vd' = JudgeAll(Cases[ci]) /\ UNCHANGED ci
=============================================================================
