------------------------------- MODULE GenSeq -------------------------------
(* Generator machine for small lists (PRINT lists, DATA lists, READ lists,  *)
(* layouts): all sequences over symbols 1..N, of length <= MaxLen, whose    *)
(* first symbol is in Start, whose adjacent pairs are in Follows and whose  *)
(* last symbol is in Final.  The alphabet's meaning (which symbol is which  *)
(* item or separator) lives with the caller; the adjacency relation comes   *)
(* in as IOEnv.SEQSPEC (JSON).                                              *)
EXTENDS Integers, Sequences, TLC, Json, IOUtils
S == JsonDeserialize(IOEnv.SEQSPEC)      \* [n, start, final, follows (list of [a,b]), maxlen, maxcount (per symbol)]
VARIABLES seq, done
Has(list, x) == \E k \in 1..Len(list) : list[k] = x
Pair(a, b) == \E k \in 1..Len(S.follows) : S.follows[k][1] = a /\ S.follows[k][2] = b
Count(x) == LET F[i \in 0..Len(seq)] == IF i = 0 THEN 0 ELSE F[i - 1] + (IF seq[i] = x THEN 1 ELSE 0) IN F[Len(seq)]
Init == seq = <<>> /\ done = FALSE
Add(x) == /\ ~done /\ Len(seq) < S.maxlen /\ Count(x) < S.maxcount
          /\ IF seq = <<>> THEN Has(S.start, x) ELSE Pair(seq[Len(seq)], x)
          /\ seq' = Append(seq, x) /\ UNCHANGED done
Finish == ~done /\ seq # <<>> /\ Has(S.final, seq[Len(seq)]) /\ done' = TRUE /\ UNCHANGED seq
Next == (\E x \in 1..S.n : Add(x)) \/ Finish
Spec == Init /\ [][Next]_<<seq, done>>
WellFormed == done => /\ Has(S.start, seq[1]) /\ Has(S.final, seq[Len(seq)])
                      /\ \A k \in 1..(Len(seq) - 1) : Pair(seq[k], seq[k + 1])
=============================================================================
