----------------------------- MODULE DataText -----------------------------
(* C20, translator side of the read filter: when a program has an empty    *)
(* DATA item every numeric item is re-spelled as a string for the filter.  *)
(* The re-spelling must denote the number the source spelled.  Both texts  *)
(* are reduced to a normal form on digit sequences - sign, significant     *)
(* digits without leading or trailing zeros, power of ten - so no bound on *)
(* the size of the value applies (the rationals of Vals stop at 30000).    *)
EXTENDS Integers, Sequences, FiniteSets, TLC, Json, IOUtils
Cases == JsonDeserialize(IOEnv.CASES)
IsDigit(c) == c >= 48 /\ c <= 57
NoBlanks(s) == SelectSeq(s, LAMBDA c : c # 32)
Upper(s) == [k \in 1..Len(s) |-> IF s[k] >= 97 /\ s[k] <= 122 THEN s[k] - 32 ELSE s[k]]
\* leading run of + and -: <<length, negative>>
SignOf(s) == LET lead == { k \in 1..Len(s) : \A j \in 1..k : s[j] \in {43, 45} } IN
             <<Cardinality(lead), Cardinality({ k \in lead : s[k] = 45 }) % 2 = 1>>
RECURSIVE IntOf(_, _)
IntOf(s, acc) == IF s = <<>> THEN acc ELSE IntOf(Tail(s), acc * 10 + (s[1] - 48))
RECURSIVE HexOf(_, _)
HexOf(s, acc) == IF s = <<>> THEN acc ELSE HexOf(Tail(s), acc * 16 + (IF IsDigit(s[1]) THEN s[1] - 48 ELSE s[1] - 55))
RECURSIVE DigitsOf(_)
DigitsOf(n) == IF n < 10 THEN <<48 + n>> ELSE Append(DigitsOf(n \div 10), 48 + (n % 10))
RECURSIVE DropLeadZ(_)
DropLeadZ(s) == IF s # <<>> /\ s[1] = 48 THEN DropLeadZ(Tail(s)) ELSE s
RECURSIVE DropTrailZ(_, _)
DropTrailZ(s, e) == IF s # <<>> /\ s[Len(s)] = 48 THEN DropTrailZ(SubSeq(s, 1, Len(s) - 1), e + 1) ELSE <<s, e>>
Bad == [ok |-> FALSE, neg |-> FALSE, digits |-> <<>>, exp |-> 0]
\* normal form of a decimal text (mantissa with at most one point, optional E exponent of at most three digits)
Norm(t0) ==
  LET t == Upper(NoBlanks(t0))
      es == { k \in 1..Len(t) : t[k] = 69 }
      ke == IF es = {} THEN Len(t) + 1 ELSE CHOOSE k \in es : \A j \in es : k <= j
      m0 == SubSeq(t, 1, ke - 1)
      x0 == SubSeq(t, ke + 1, Len(t))
      sg == SignOf(m0)
      m == SubSeq(m0, sg[1] + 1, Len(m0))
      dots == { k \in 1..Len(m) : m[k] = 46 }
      kd == IF dots = {} THEN Len(m) + 1 ELSE CHOOSE k \in dots : TRUE
      ip == SubSeq(m, 1, kd - 1)
      fp == SubSeq(m, kd + 1, Len(m))
      xs == SignOf(x0)
      xd == SubSeq(x0, xs[1] + 1, Len(x0))
      ev == (IF xs[2] THEN -1 ELSE 1) * IntOf(xd, 0)
      all == DropLeadZ(ip \o fp)
      dt == DropTrailZ(all, ev - Len(fp)) IN
  IF Len(t) >= 2 /\ t[1] = 38 /\ t[2] = 72 THEN
       (IF Len(t) > 6 \/ \E k \in 3..Len(t) : ~(IsDigit(t[k]) \/ (t[k] >= 65 /\ t[k] <= 70)) THEN Bad
        ELSE LET n == HexOf(SubSeq(t, 3, Len(t)), 0)  d == DropTrailZ(DropLeadZ(DigitsOf(n)), 0) IN
             [ok |-> TRUE, neg |-> FALSE, digits |-> d[1], exp |-> IF d[1] = <<>> THEN 0 ELSE d[2]])
  ELSE IF Cardinality(dots) > 1 \/ Cardinality(es) > 1 \/ Len(xd) > 3 \/ (ip \o fp) = <<>>
          \/ \E k \in 1..Len(ip \o fp \o xd) : ~IsDigit((ip \o fp \o xd)[k]) THEN Bad
  ELSE IF dt[1] = <<>> THEN [ok |-> TRUE, neg |-> FALSE, digits |-> <<>>, exp |-> 0]          \* zero, whatever its sign and exponent
  ELSE [ok |-> TRUE, neg |-> sg[2], digits |-> dt[1], exp |-> dt[2]]
V(ok, clause, key, detail) == [ok |-> ok, clause |-> clause, key |-> key, detail |-> detail]
Verdict(cs) ==
  LET a == Norm(cs.src)  b == Norm(cs.tgt) IN
  IF ~a.ok THEN V(TRUE, "unjudged", "source-spelling-outside-the-model", cs.what)
  ELSE IF cs.found = 0 THEN V(FALSE, "data-text", "data-text:no-string-item-emitted", cs.what)
  ELSE IF ~b.ok THEN V(FALSE, "data-text", "data-text:emitted-item-is-not-a-number", cs.what)
  ELSE IF a = b THEN V(TRUE, "ok", "", cs.what)
  ELSE V(FALSE, "data-text", "data-text:emitted-item-denotes-another-number", cs.what)
VARIABLES ci, vd
Init == ci \in 1..Len(Cases) /\ vd = [clause |-> "todo"]
Next == vd.clause = "todo" /\ vd' = Verdict(Cases[ci]) /\ UNCHANGED ci
=============================================================================
