CONSTANTS
  NmLetters = {65, 66, 84}
  NmDigits = {48, 49}
  MaxLen = 4
SPECIFICATION Spec
INVARIANT Faithful
INVARIANT NoCollision
CHECK_DEADLOCK FALSE
