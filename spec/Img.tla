--------------------------------- MODULE Img ---------------------------------
(***************************************************************************)
(* Image formats, common part.                                             *)
(*                                                                         *)
(* Colour.  A CoCo 3 palette register holds a six-bit code R1 G1 B1 R0 G0  *)
(* B0; the RGB monitor shows component X with intensity 2*X1 + X0 out of   *)
(* 3.  Rgb(c) states this once (from the hardware definition), scaled to   *)
(* 0..255 (85 per step).                                                   *)
(*                                                                         *)
(* Data.  File data and abstract images are sequences of byte runs         *)
(* <<value, count>>; decoded pictures are sequences of pixel runs          *)
(* <<r, g, b, count>>, adjacent equal colours merged.  Every format        *)
(* module gives: an encoder machine (nondeterministic: which encoding is   *)
(* chosen for the next stretch of the abstract image), a decoder           *)
(* (deterministic, a fold of a step function over the bytes), and the      *)
(* picture an abstract image denotes.                                      *)
(***************************************************************************)
EXTENDS Integers, Sequences, FiniteSets, TLC, SequencesExt

Bit(c, i) == (c \div (2 ^ i)) % 2
Rgb(c) == << 85 * (2 * Bit(c, 5) + Bit(c, 2)), 85 * (2 * Bit(c, 4) + Bit(c, 1)), 85 * (2 * Bit(c, 3) + Bit(c, 0)) >>

\* ---- pixel runs ----
PushPix(acc, col, n) ==
  IF n <= 0 THEN acc
  ELSE IF acc # <<>> /\ acc[Len(acc)][1] = col[1] /\ acc[Len(acc)][2] = col[2] /\ acc[Len(acc)][3] = col[3]
       THEN [acc EXCEPT ![Len(acc)] = <<col[1], col[2], col[3], @[4] + n>>]
       ELSE Append(acc, <<col[1], col[2], col[3], n>>)
NPix(runs) == FoldLeft(LAMBDA a, r : a + r[4], 0, runs)
\* two-pixels-per-byte layout: high nibble is the left pixel; each nibble indexes a 16-entry palette of colour codes
Push4bpp(acc, pal, v, n) ==
  LET hi == Rgb(pal[(v \div 16) + 1])  lo == Rgb(pal[(v % 16) + 1]) IN
  IF hi = lo THEN PushPix(acc, hi, 2 * n)
  ELSE FoldLeft(LAMBDA a, k : PushPix(PushPix(a, hi, 1), lo, 1), acc, [k \in 1..n |-> k])
\* the picture of an abstract 4-bit image (byte runs) under a palette
Picture4bpp(img, pal) == FoldLeft(LAMBDA a, r : Push4bpp(a, pal, r[1], r[2]), <<>>, img)
NBytes(img) == FoldLeft(LAMBDA a, r : a + r[2], 0, img)

\* ---- comparing a recorded picture with the expected one ----
\* both pictures are in merged form, so they are equal iff the run sequences are equal;
\* position (pixel index, 0-based) of the first difference, or -1
FirstDiffPix(a, b) ==
  LET n == IF Len(a) < Len(b) THEN Len(a) ELSE Len(b)
      c == { k \in 1..n : a[k] # b[k] }
      k == IF c = {} THEN n + 1 ELSE CHOOSE x \in c : \A y \in c : x <= y
      before == FoldLeft(LAMBDA acc, q : acc + a[q][4], 0, [q \in 1..(k - 1) |-> q]) IN
  IF c = {} /\ Len(a) = Len(b) THEN -1
  ELSE IF k > n THEN before
  ELSE IF a[k][1] = b[k][1] /\ a[k][2] = b[k][2] /\ a[k][3] = b[k][3] THEN before + (IF a[k][4] < b[k][4] THEN a[k][4] ELSE b[k][4])
  ELSE before
PixAt(runs, pos) ==        \* colour of pixel number pos (0-based), <<-1,-1,-1>> beyond the end
  LET r == FoldLeft(LAMBDA a, run : IF a[1] < 0 THEN a ELSE IF a[1] < run[4] THEN <<-1, <<run[1], run[2], run[3]>>>> ELSE <<a[1] - run[4], a[2]>>,
                    <<pos, <<-1, -1, -1>>>>, runs) IN
  IF r[1] < 0 THEN r[2] ELSE <<-1, -1, -1>>

\* a byte sequence from byte runs (toy sizes only)
Expand(runs) == FoldLeft(LAMBDA a, r : a \o [k \in 1..r[2] |-> r[1]], <<>>, runs)
=============================================================================
