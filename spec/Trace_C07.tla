----------------------------- MODULE Trace_C07 -----------------------------
(* Trace validation for C07: the emitted token stream is the trace; it is  *)
(* accepted iff the BASIC09 recogniser of module B09 consumes all of it    *)
(* with an empty block stack.  One case per emitted program; the verdict   *)
(* names the first failing clause and where.                               *)
EXTENDS B09, Json, IOUtils
Cases == JsonDeserialize(IOEnv.CASES)

FirstBad(fs) == LET c == { k \in 1..Len(fs) : ~fs[k].prog.ok } IN
                IF c = {} THEN 0 ELSE CHOOSE k \in c : \A j \in c : k <= j
\* the size placeholder STRING<<>> belongs to the library source; in emitted text it is a leaked internal object
LeakLine(lines) == LET c == { i \in 1..Len(lines) : \E k \in 1..Len(lines[i]) : lines[i][k].k = "op" /\ lines[i][k].v = "<<>>" } IN
                   IF c = {} THEN 0 ELSE CHOOSE i \in c : \A j \in c : i <= j
Verdict(cs) ==
  LET lines == cs.lines
      ps == ProcStarts(lines) IN
  IF cs.kind # "library" /\ LeakLine(lines) # 0 THEN
     [ok |-> FALSE, clause |-> "leak:string-size-placeholder-in-output", ln |-> LeakLine(lines), proc |-> "", nstmt |-> 0]
  ELSE IF ps = <<>> THEN
     LET p == BProg(lines) IN
     [ok |-> p.ok, clause |-> p.err, ln |-> p.errln, proc |-> "", nstmt |-> Len(p.code)]
  ELSE IF \E k \in 1..(ps[1] - 1) : lines[k] # <<>> THEN
     [ok |-> FALSE, clause |-> "line-form:text-before-first-procedure", ln |-> 1, proc |-> "", nstmt |-> 0]
  ELSE LET fs == BFile(lines)  b == FirstBad(fs) IN
       IF b = 0 THEN [ok |-> TRUE, clause |-> "", ln |-> 0, proc |-> "", nstmt |-> Len(fs)]
       ELSE [ok |-> FALSE, clause |-> fs[b].prog.err, ln |-> fs[b].first + fs[b].prog.errln - 1,
             proc |-> fs[b].name, nstmt |-> Len(fs)]

\* A Color BASIC variable whose name is a BASIC09 reserved word (DO, PI, SQ are the two-letter
\* ones the source grammar admits) is emitted unchanged: one root cause, one key per word
ReservedVars == {"DO", "PI", "SQ"}
Keyed(cs, v) ==
  LET ws == { w \in ReservedVars : (\E k \in 1..Len(cs.srcvars) : cs.srcvars[k] = w) /\
                                   v.clause \in {"stray-token:reserved-word:" \o w, "stray-token:reserved-word-as-variable:" \o w} } IN
  IF v.ok \/ ws = {} THEN v ELSE [v EXCEPT !.clause = "stray-token:source-variable-named-like-a-reserved-word:" \o (CHOOSE w \in ws : TRUE)]
VARIABLES ci, vd
Init == ci \in 1..Len(Cases) /\ vd = [clause |-> "todo"]
Next == vd.clause = "todo" /\ vd' = Keyed(Cases[ci], Verdict(Cases[ci])) /\ ci' = ci
=============================================================================
