CONSTANTS
  MaxDepth = 2
SPECIFICATION Spec
INVARIANT RoundTrip
CHECK_DEADLOCK FALSE
