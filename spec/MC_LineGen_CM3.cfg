CONSTANTS
  Format = "CM3"
  W = 8
  NLines = 2
  VefType = 0
  Kinds = {"const", "halves", "noise", "same", "poke", "stripes"}
  PalSet = {0}
  Vals = {1, 7}
  Strategies = {"raw", "prefer-left", "prefer-up", "literal", "alternate"}
  Pages = {1}
  Motifs = {FALSE}
SPECIFICATION Spec
INVARIANT RoundTrip
INVARIANT Complete
CHECK_DEADLOCK FALSE
