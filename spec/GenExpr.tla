------------------------------ MODULE GenExpr ------------------------------
(***************************************************************************)
(* Generator machine for the expression fragment of property C01.  A state *)
(* is a token sequence that is a prefix of a Color BASIC expression; the   *)
(* reachable states with Done = TRUE are exactly the expressions with at   *)
(* most MaxOps operator applications (unary and binary operators,          *)
(* comparisons, parentheses and function calls all count) over the given   *)
(* alphabet.  TLC enumerates them exhaustively (-dump) or samples them     *)
(* (-simulate); the harness renders each token sequence to text, feeds it  *)
(* to the real translator and returns the output to Trace_C01.             *)
(*                                                                         *)
(* Grammar "num":  numeric expression (AND/OR/NOT are the 16-bit logical   *)
(* operators).  Grammar "cond": comparisons of arithmetic or string        *)
(* operands joined by AND/OR, optionally negated or parenthesised -- the   *)
(* form an IF condition takes.  Grammar "str": string expression.          *)
(***************************************************************************)
EXTENDS Integers, Sequences, FiniteSets, TLC

CONSTANTS Grammar,      \* "num" | "cond" | "str"
          MaxOps, MaxLen,
          NumLeaves, StrLeaves,
          Arith,        \* binary arithmetic operators
          Logic,        \* AND / OR (numeric grammar)
          RelOps,
          NumFun1,      \* numeric functions of one numeric argument   e.g. "ABS", "INT"
          StrToNum,     \* numeric functions of one string argument    e.g. "LEN", "VAL"
          NumToStr,     \* string functions of one numeric argument    e.g. "CHR$", "STR$"
          Str2, Str3,   \* LEFT$/RIGHT$ (s,n) and MID$ (s,n,n)
          WithInstr, WithStringS, WithInkey, WithNot, WithNeg, WithParen

VARIABLES toks, fr, mode, nops, start
vars == <<toks, fr, mode, nops, start>>

Frame(ret, rest) == [ret |-> ret, rest |-> rest]
\* the mode entered after an operand has been completed in operand mode m
After(m) == CASE m = "N" -> "No" [] m = "S" -> "So" [] m = "L" -> "Lo" [] m = "R" -> "Ro"
              [] m = "SL" -> "SLo" [] m = "SR" -> "SRo"
StartOf(kind) == IF kind = "n" THEN "N" ELSE "S"

Init == /\ toks = <<>> /\ fr = <<>> /\ nops = 0 /\ start = TRUE
        /\ mode = CASE Grammar = "num" -> "N" [] Grammar = "str" -> "S" [] OTHER -> "L"

Room == nops < MaxOps /\ Len(toks) + 2 <= MaxLen
Emit(ts, m, dn, st) == /\ toks' = toks \o ts /\ mode' = m /\ nops' = nops + dn /\ start' = st

NumOperandMode == mode \in {"N", "L", "R"}
StrOperandMode == mode \in {"S", "SL", "SR"} \/ (mode = "L" /\ start)
\* after a string operand seen while in "L" the comparison is a string comparison
StrAfter == IF mode = "L" THEN "SLo" ELSE After(mode)

Leaf ==
  \/ /\ NumOperandMode /\ Len(toks) < MaxLen
     /\ \E l \in NumLeaves : Emit(<<l>>, After(mode), 0, FALSE) /\ UNCHANGED fr
  \/ /\ StrOperandMode /\ Len(toks) < MaxLen
     /\ \/ \E l \in StrLeaves : Emit(<<l>>, StrAfter, 0, FALSE) /\ UNCHANGED fr
        \/ WithInkey /\ Room /\ Emit(<<"INKEY$">>, StrAfter, 1, FALSE) /\ UNCHANGED fr
Unary ==
  /\ NumOperandMode /\ Room /\ UNCHANGED fr
  /\ \/ WithNeg /\ Emit(<<"-">>, mode, 1, FALSE)
     \/ WithNot /\ start /\ Emit(<<"NOT">>, mode, 1, start)
\* an opening parenthesis or function: push the mode to return to and the kinds of the remaining arguments
Open ==
  /\ Room
  /\ \/ /\ NumOperandMode
        /\ \/ WithParen /\ Emit(<<"(">>, "N", 1, TRUE) /\ fr' = Append(fr, Frame(After(mode), <<>>))
           \/ \E f \in NumFun1 : Emit(<<f, "(">>, "N", 1, TRUE) /\ fr' = Append(fr, Frame(After(mode), <<>>))
           \/ \E f \in StrToNum : Emit(<<f, "(">>, "S", 1, TRUE) /\ fr' = Append(fr, Frame(After(mode), <<>>))
           \/ WithInstr /\ Emit(<<"INSTR", "(">>, "N", 1, TRUE) /\ fr' = Append(fr, Frame(After(mode), <<"s", "s">>))
     \/ /\ StrOperandMode
        /\ \/ \E f \in NumToStr : Emit(<<f, "(">>, "N", 1, TRUE) /\ fr' = Append(fr, Frame(StrAfter, <<>>))
           \/ \E f \in Str2 : Emit(<<f, "(">>, "S", 1, TRUE) /\ fr' = Append(fr, Frame(StrAfter, <<"n">>))
           \/ \E f \in Str3 : Emit(<<f, "(">>, "S", 1, TRUE) /\ fr' = Append(fr, Frame(StrAfter, <<"n", "n">>))
           \/ WithStringS /\ Emit(<<"STRING$", "(">>, "N", 1, TRUE) /\ fr' = Append(fr, Frame(StrAfter, <<"s">>))
     \/ /\ mode = "L" /\ start /\ Grammar = "cond" /\ WithParen      \* parenthesised condition
        /\ Emit(<<"(">>, "L", 1, TRUE) /\ fr' = Append(fr, Frame("Ro", <<"cond">>))
Binary ==
  /\ Room /\ UNCHANGED fr
  /\ \/ mode = "No" /\ \E o \in Arith \cup Logic : Emit(<<o>>, "N", 1, FALSE)
     \/ mode = "So" /\ Emit(<<"+">>, "S", 1, FALSE)
     \/ mode = "Lo" /\ \/ \E o \in Arith : Emit(<<o>>, "L", 1, FALSE)
                       \/ \E o \in RelOps : Emit(<<o>>, "R", 1, FALSE)
     \/ mode = "SLo" /\ \/ Emit(<<"+">>, "SL", 1, FALSE)
                        \/ \E o \in RelOps : Emit(<<o>>, "SR", 1, FALSE)
     \/ mode = "Ro" /\ \E o \in Arith : Emit(<<o>>, "R", 1, FALSE)
     \/ mode = "SRo" /\ Emit(<<"+">>, "SR", 1, FALSE)
     \/ mode \in {"Ro", "SRo"} /\ \E o \in Logic : Emit(<<o>>, "L", 1, TRUE)
\* next argument or closing parenthesis
InnerDone == mode \in {"No", "So", "Ro", "SRo"}
Close ==
  /\ fr # <<>> /\ InnerDone /\ Len(toks) < MaxLen
  /\ LET f == fr[Len(fr)] IN
     \/ /\ f.rest = <<"cond">> /\ mode \in {"Ro", "SRo"}
        /\ Emit(<<")">>, f.ret, 0, FALSE) /\ fr' = SubSeq(fr, 1, Len(fr) - 1)
     \/ /\ f.rest = <<>> /\ mode \in {"No", "So"}
        /\ Emit(<<")">>, f.ret, 0, FALSE) /\ fr' = SubSeq(fr, 1, Len(fr) - 1)
     \/ /\ f.rest # <<>> /\ f.rest # <<"cond">> /\ mode \in {"No", "So"}
        /\ Emit(<<",">>, StartOf(f.rest[1]), 0, TRUE)
        /\ fr' = [fr EXCEPT ![Len(fr)] = Frame(f.ret, Tail(f.rest))]
Next == Leaf \/ Unary \/ Open \/ Binary \/ Close
Spec == Init /\ [][Next]_vars

Done == /\ fr = <<>>
        /\ mode = CASE Grammar = "num" -> "No" [] Grammar = "str" -> "So" [] OTHER -> mode
        /\ Grammar = "cond" => mode \in {"Ro", "SRo"}

\* ---- properties of the generator itself (checked by TLC on every run) ----
TypeOK == /\ nops \in 0..MaxOps /\ Len(toks) <= MaxLen
          /\ mode \in {"N", "No", "S", "So", "L", "Lo", "R", "Ro", "SL", "SLo", "SR", "SRo"}
\* parentheses never close more than they open, and a finished expression is balanced
Opens(ts) == Cardinality({ k \in 1..Len(ts) : ts[k] = "(" })
Closes(ts) == Cardinality({ k \in 1..Len(ts) : ts[k] = ")" })
Balanced == Opens(toks) - Closes(toks) = Len(fr)
=============================================================================
