CONSTANTS
  Grammar = "num"
  MaxOps = 3
  MaxLen = 12
  NumLeaves = {"A", "B", "2"}
  StrLeaves = {}
  Arith = {"+", "-", "*", "/", "^"}
  Logic = {"AND", "OR"}
  RelOps = {}
  NumFun1 = {"ABS", "INT"}
  StrToNum = {}
  NumToStr = {}
  Str2 = {}
  Str3 = {}
  WithInstr = FALSE
  WithStringS = FALSE
  WithInkey = FALSE
  WithNot = TRUE
  WithNeg = TRUE
  WithParen = TRUE
SPECIFICATION Spec
INVARIANT TypeOK
INVARIANT Balanced
CHECK_DEADLOCK FALSE
