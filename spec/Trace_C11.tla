----------------------------- MODULE Trace_C11 -----------------------------
(***************************************************************************)
(* C11: each option changes only the aspect of the output it documents.    *)
(* The option vector is the state; Toggle(o) flips one option.  For every  *)
(* program the real outputs under all 2^5 vectors are recorded (lines are  *)
(* kept in a table, an output is a sequence of table indices); TLC walks   *)
(* the whole hypercube and checks on every edge the documented effect:     *)
(*   filter    labels only removed, no statement changes                   *)
(*   init      only prologue assignments and array fill loops removed      *)
(*   width32   only the flag of the start-up call differs                  *)
(*   deps      only the procedure header and the bundled procedures go     *)
(*   strsize   only declared string sizes differ                           *)
(* The command line is a second cube: FlagMap states which option each     *)
(* flag sets; the file written by start() must be convert() under the      *)
(* mapped options with CR line ends and the procedure named after the      *)
(* input file.                                                             *)
(***************************************************************************)
EXTENDS B09, Json, IOUtils
Cases == JsonDeserialize(IOEnv.CASES)
Opts == <<"filter", "init", "width32", "deps", "size80">>
NOpts == 5
\* vectors are sequences of 0/1 in the order of Opts; outputs are stored under the index 1 + sum b_i 2^(i-1)
Idx(vec) == 1 + vec[1] + 2 * vec[2] + 4 * vec[3] + 8 * vec[4] + 16 * vec[5]
AllVecs == { <<a, b, c, d, e>> : a \in {0, 1}, b \in {0, 1}, c \in {0, 1}, d \in {0, 1}, e \in {0, 1} }
Flip(vec, o) == [vec EXCEPT ![o] = 1 - @]

Lines(cs, vec) == LET ix == cs.outs[Idx(vec)] IN [k \in 1..Len(ix) |-> cs.table[ix[k]]]
TokEq(a, b) == a.k = b.k /\ a.v = b.v /\ a.n = b.n /\ a.d = b.d /\ a.s = b.s
LineEq(x, y) == Len(x) = Len(y) /\ \A k \in 1..Len(x) : TokEq(x[k], y[k])
IsZeroLit(tk) == (tk.k \in {"real", "int"} /\ tk.n = 0) \/ (tk.k = "str" /\ tk.s = <<>>)
\* a line the pre-initialisation option adds: X := 0.0 / X$ := "" / the fill loop of an array
IsInitLine(t) == \/ Len(t) = 3 /\ t[1].k = "id" /\ IsOpT(t[2], ":=") /\ IsZeroLit(t[3])
                 \/ Len(t) >= 2 /\ IsKw(t[1], "FOR") /\ t[2].k = "id" /\ t[2].v \in {"TMP_1", "TMP_2", "TMP_3"}
Skippable(t) == IsInitLine(t) \/ t = <<>>
\* is xs a subsequence of ys such that every skipped line of ys satisfies Skippable?  (greedy match is enough:
\* lines are matched in order)
RECURSIVE SubseqSkipping(_, _, _, _)
SubseqSkipping(xs, i, ys, j) ==
  IF i > Len(xs) THEN \A q \in j..Len(ys) : Skippable(ys[q])
  ELSE IF j > Len(ys) THEN FALSE
  ELSE IF LineEq(xs[i], ys[j]) THEN SubseqSkipping(xs, i + 1, ys, j + 1)
  ELSE Skippable(ys[j]) /\ SubseqSkipping(xs, i, ys, j + 1)

NonBlank(ls) == SelectSeq(ls, LAMBDA t : t # <<>>)
\* ---- documented effects ----
Unlabel(t) == IF t # <<>> /\ t[1].k = "int" THEN Tail(t) ELSE t
LabelsOnlyRemoved(off, on) ==       \* filter off -> on
  Len(off) = Len(on) /\ \A k \in 1..Len(off) : LineEq(off[k], on[k]) \/ LineEq(Unlabel(off[k]), on[k])
OnlyInitLinesRemoved(on, off) == SubseqSkipping(NonBlank(off), 1, on, 1)      \* init on -> off
IsStartCall(t) == Len(t) >= 2 /\ IsKw(t[1], "RUN") /\ t[2].k = "id" /\ t[2].v = "_ECB_START"
OnlyStartFlagDiffers(a, b) ==
  Len(a) = Len(b) /\ \A k \in 1..Len(a) :
     \/ LineEq(a[k], b[k])
     \/ /\ IsStartCall(a[k]) /\ IsStartCall(b[k]) /\ Len(a[k]) = Len(b[k])
        /\ \A q \in 1..Len(a[k]) : TokEq(a[k][q], b[k][q]) \/ (a[k][q].k = "int" /\ b[k][q].k = "int" /\ q = Len(a[k]) - 1)
\* (a name taken from a file stem may hold '-' and is then lexed as several tokens)
IsProcHeader(t) == Len(t) >= 2 /\ IsKw(t[1], "PROCEDURE")
HeaderName(t) == [k \in 1..(Len(t) - 1) |-> t[k + 1].v]
LastHeader(ls) == LET c == { k \in 1..Len(ls) : IsProcHeader(ls[k]) } IN IF c = {} THEN 0 ELSE CHOOSE k \in c : \A j \in c : j <= k
OnlyHeaderAndBundleRemoved(with, without) ==         \* deps on -> off
  LET h == LastHeader(with) IN
  h > 0 /\ LET rest == NonBlank(SubSeq(with, h + 1, Len(with)))  w == NonBlank(without) IN
           Len(rest) = Len(w) /\ \A k \in 1..Len(w) : LineEq(rest[k], w[k])
\* string sizes: drop "[n]" after STRING everywhere, and the ": STRING" that ends a DIM line; a line that is then
\* just DIM <string name> carries no other information
RECURSIVE StripBrackets(_)
StripBrackets(t) ==
  IF t = <<>> THEN <<>>
  ELSE IF Len(t) >= 4 /\ IsKw(t[1], "STRING") /\ IsOpT(t[2], "[") /\ t[3].k = "int" /\ IsOpT(t[4], "]") THEN <<t[1]>> \o StripBrackets(SubSeq(t, 5, Len(t)))
  ELSE <<t[1]>> \o StripBrackets(Tail(t))
IsDimLine(t) == (Len(t) >= 1 /\ IsKw(t[1], "DIM")) \/ (Len(t) >= 2 /\ t[1].k = "int" /\ IsKw(t[2], "DIM"))
StripSize(t) == LET u == StripBrackets(t)  n == Len(u) IN
                IF IsDimLine(u) /\ n >= 3 /\ IsOpT(u[n - 1], ":") /\ IsKw(u[n], "STRING") THEN SubSeq(u, 1, n - 2) ELSE u
IsBareStringDim(t) == Len(t) = 2 /\ IsKw(t[1], "DIM") /\ t[2].k = "id" /\ TyOf(t[2]) = "$"
NormSizes(ls) == SelectSeq([k \in 1..Len(ls) |-> StripSize(ls[k])], LAMBDA t : ~IsBareStringDim(t) /\ t # <<>>)
OnlyStringDeclsDiffer(a, b) == LET x == NormSizes(a)  y == NormSizes(b) IN Len(x) = Len(y) /\ \A k \in 1..Len(x) : LineEq(x[k], y[k])

Delta(cs, vec, o) ==
  LET a == Lines(cs, vec)  b == Lines(cs, Flip(vec, o))
      lo == IF vec[o] = 0 THEN a ELSE b      \* option off
      hi == IF vec[o] = 0 THEN b ELSE a IN   \* option on
  CASE o = 1 -> LabelsOnlyRemoved(lo, hi)
    [] o = 2 -> OnlyInitLinesRemoved(hi, lo)
    [] o = 3 -> OnlyStartFlagDiffers(lo, hi)
    [] o = 4 -> OnlyHeaderAndBundleRemoved(hi, lo)
    [] OTHER -> OnlyStringDeclsDiffer(lo, hi)

\* ---- command line ----
\* flags in the order -l -z -w -D -s80 ; the option each one sets
FlagMap(f) == <<f[1], 1 - f[2], 1 - f[3], 1 - f[4], f[5]>>
CliOk(cs, f) ==
  LET want == Lines(cs, FlagMap(f))
      got == [k \in 1..Len(cs.cli[Idx(f)].ix) |-> cs.table[cs.cli[Idx(f)].ix[k]]]
      h == LastHeader(got) IN
  IF cs.cli[Idx(f)].lf # 0 THEN "cli:line-feed-in-output"
  ELSE IF FlagMap(f)[4] = 1 /\ (h = 0 \/ HeaderName(got[h]) # cs.stem) THEN "cli:procedure-not-named-after-input-file"
  ELSE IF Len(NonBlank(want)) # Len(NonBlank(got)) \/ \E k \in 1..Len(NonBlank(want)) : ~LineEq(NonBlank(want)[k], NonBlank(got)[k])
       THEN "cli:flag-mapping:output-differs-from-convert-under-mapped-options"
  ELSE ""

VARIABLES ci, vec, o, vd
Init == /\ ci \in 1..Len(Cases) /\ vec \in AllVecs /\ o \in 0..NOpts /\ vd = [clause |-> "todo"]
        /\ (o = 0 => Cases[ci].hascli)
Toggle == /\ vd.clause = "todo"
          /\ vd' = IF o = 0 THEN (LET r == CliOk(Cases[ci], vec) IN [clause |-> IF r = "" THEN "ok" ELSE "cli", ok |-> r = "", key |-> r])
                   ELSE (LET r == Delta(Cases[ci], vec, o) IN
                         [clause |-> IF r THEN "ok" ELSE "delta", ok |-> r,
                          key |-> IF r THEN "" ELSE "delta:" \o Opts[o] \o ":changes-more-than-documented"])
          /\ UNCHANGED <<ci, vec, o>>
Next == Toggle
=============================================================================
