CONSTANTS
  Format = "RAT"
  Total = 5
  LineLen = 3
  Esc = 9
  Vals = {9, 240}
  Lens = {1, 2, 5}
  NoiseSet = {1}
  Header = "RAT"
  Skip = 2
  VefType = 0
  AllowRep = TRUE
  PalSet = {0, 17}
SPECIFICATION Spec
INVARIANT RoundTrip
INVARIANT Complete
CHECK_DEADLOCK FALSE
