INIT PInit
NEXT PNext
INVARIANT OutcomeDocumented
CHECK_DEADLOCK FALSE
