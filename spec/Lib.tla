--------------------------------- MODULE Lib ---------------------------------
(* The runtime library as the specification sees it: the text of            *)
(* /repo/coco/resources/ecb.b09 of the working tree (lexed by the shim,      *)
(* handed over in IOEnv.LIBTOKS), parsed by module B09.  Everything the     *)
(* properties say about "the parameter position the runtime procedure       *)
(* declares" is read from here, never from a copy.                          *)
EXTENDS Decb, Json, IOUtils
LibToks == JsonDeserialize(IOEnv.LIBTOKS)
LibFile == BFile(LibToks)
ParamDecls(code) == FoldLeft(LAMBDA acc, ins : IF ins.op = "PARAM" THEN acc \o ins.a ELSE acc, <<>>, code)
ParamNames(code) == LET d == ParamDecls(code) IN [k \in 1..Len(d) |-> d[k][2]]
LibNames == { LibFile[k].name : k \in 1..Len(LibFile) }
LibProc(nm) == LibFile[CHOOSE k \in 1..Len(LibFile) : LibFile[k].name = nm]
\* procedure name -> sequence of parameter names, in declaration order
LibSigIn == [nm \in LibNames |-> ParamNames(LibProc(nm).prog.code)]
=============================================================================
