CONSTANTS
  Alphabet = {97, 98}
  MaxLenS = 4
  MaxStart = 5
  MaxCount = 255
  StrSize0 = 32
INIT Init
NEXT Next
CHECK_DEADLOCK FALSE
