----------------------------- MODULE Trace_C04 -----------------------------
(* C04: device statements reach the runtime with the right operands.  The   *)
(* behavioural part is module Refine ("dev" events carry the operand values *)
(* by role; the target's values are picked from the positions the library   *)
(* text declares for the parameter names).  Added here: the buffer prologue *)
(* is present exactly when the source uses HBUFF.                           *)
EXTENDS Refine
Cases == JsonDeserialize(IOEnv.CASES)
UsesHbuff(code) == \E q \in 1..Len(code) : code[q].op = "DEV" /\ code[q].x = "HBUFF"
HasInit(code) == \E q \in 1..Len(code) : code[q].op = "RUN" /\ code[q].x = "_ECB_INIT_HBUFF"
HasPidDecl(code) == \E q \in 1..Len(code) : code[q].op = "DIM" /\ \E k \in 1..Len(code[q].a) : code[q].a[k][2] = "PID"
Verdict(cs) ==
  LET vd == JudgeAll(cs) IN
  IF ~vd.ok \/ vd.clause = "machinery" \/ ~cs.prefix THEN vd
  ELSE LET ps == Parsed(cs)  want == UsesHbuff(ps.dp.code)  got == HasInit(ps.bp.code) /\ HasPidDecl(ps.bp.code) IN
       IF want # got \/ HasInit(ps.bp.code) # HasPidDecl(ps.bp.code)
       THEN VS(FALSE, "hbuff-prologue", "hbuff-prologue:" \o (IF want THEN "missing" ELSE "unwanted"), "", "")
       ELSE vd
VARIABLES ci, vd
Init == ci \in 1..Len(Cases) /\ vd = [clause |-> "todo"]
Next == vd.clause = "todo" /\ vd' = Verdict(Cases[ci]) /\ UNCHANGED ci
=============================================================================
