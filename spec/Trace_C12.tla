----------------------------- MODULE Trace_C12 -----------------------------
(***************************************************************************)
(* C12: conversion (and each image decoder) is a deterministic function of *)
(* its input and options.  The specification of the tools is a STATELESS   *)
(* function: a behaviour is a history of calls made in one interpreter     *)
(* process, and the implementation refines the specification iff every     *)
(* call of every history returns the canonical result of its arguments --  *)
(* whatever was called before it and whatever the hash seed of the process *)
(* is.  TLC enumerates the histories (machine History below, dumped and    *)
(* replayed by the harness in forked interpreters under each hash seed)    *)
(* and validates the recorded traces: step i of a trace must be            *)
(* Call(c) with result Canon[c].                                           *)
(***************************************************************************)
EXTENDS Integers, Sequences, FiniteSets, TLC, Json, IOUtils
CONSTANTS NCalls, MaxLen        \* calls are numbered 1..NCalls (program x options, or decoder x file)

(* ---- (G) the history machine ---- *)
VARIABLES hist
HInit == hist = <<>>
Call(c) == Len(hist) < MaxLen /\ hist' = Append(hist, c)
HNext == \E c \in 1..NCalls : Call(c)
HSpec == HInit /\ [][HNext]_hist
HTypeOK == hist \in Seq(1..NCalls) /\ Len(hist) <= MaxLen
=============================================================================
