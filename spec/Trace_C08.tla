----------------------------- MODULE Trace_C08 -----------------------------
(* C08 validation: per abstract program the recorded outcomes of all its    *)
(* layouts (outcome class + SHA-1 of the output) must agree; and the bytes  *)
(* of string literals, unquoted DATA items and comments of the canonical    *)
(* output equal the source's.                                               *)
EXTENDS Integers, Sequences, FiniteSets, TLC, Json, IOUtils
Cases == JsonDeserialize(IOEnv.CASES)
\* cs.runs : [outcome, hash, what]   cs.srcstr, cs.outstr : sequences of byte strings (content clause)
SeqToSet(s) == { s[k] : k \in 1..Len(s) }
Verdict(cs) ==
  LET rs == cs.runs
      oks == { k \in 1..Len(rs) : rs[k].outcome = "ok" }
      refused == { k \in 1..Len(rs) : rs[k].outcome # "ok" } IN
  \* an internal exception under every layout is property C15's subject; under some layouts only, it is a layout dependence
  IF oks = {} /\ \E k \in 1..Len(rs) : rs[k].outcome \notin {"ok", "grammar", "undefined-or-duplicate", "too-large"} THEN
       [ok |-> TRUE, clause |-> "unjudged", key |-> "internal-exception-is-C15", detail |-> ""]
  ELSE IF oks # {} /\ refused # {} THEN
       LET k == CHOOSE x \in refused : \A y \in refused : x <= y IN
       [ok |-> FALSE, clause |-> "layout", key |-> "layout:accepted-and-refused:" \o rs[k].what, detail |-> ToString(k)]
  ELSE IF Cardinality({ rs[k].hash : k \in oks }) > 1 THEN
       LET h == rs[CHOOSE x \in oks : \A y \in oks : x <= y].hash
           k == CHOOSE x \in oks : rs[x].hash # h /\ \A y \in oks : rs[y].hash # h => x <= y IN
       \* hashc: the same output with the blanks removed from comments that echo a CLEAR statement
       IF Cardinality({ rs[x].hashc : x \in oks }) = 1
       THEN [ok |-> FALSE, clause |-> "layout", key |-> "layout:output-differs:only-blanks-inside-the-comment-that-echoes-CLEAR", detail |-> ToString(k)]
       ELSE [ok |-> FALSE, clause |-> "layout", key |-> "layout:output-differs:" \o rs[k].what, detail |-> ToString(k)]
  ELSE IF oks # {} /\ SeqToSet(cs.srcstr) \ SeqToSet(cs.outstr) # {} THEN
       [ok |-> FALSE, clause |-> "content", key |-> "content:text-of-literal-DATA-item-or-comment-changed", detail |-> ToString(CHOOSE x \in SeqToSet(cs.srcstr) \ SeqToSet(cs.outstr) : TRUE)]
  ELSE [ok |-> TRUE, clause |-> "ok", key |-> "", detail |-> ToString(Len(rs))]
VARIABLES ci, vd
Init == ci \in 1..Len(Cases) /\ vd = [clause |-> "todo"]
Next == vd.clause = "todo" /\ vd' = Verdict(Cases[ci]) /\ UNCHANGED ci
=============================================================================
