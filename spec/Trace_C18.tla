----------------------------- MODULE Trace_C18 -----------------------------
(***************************************************************************)
(* C18: decoder output is a complete image file of the advertised size.    *)
(* The size each format or option dictates is stated here (Dims); a        *)
(* recorded run is accepted iff the container header announces that size   *)
(* and is followed by exactly width x height samples (PNG: every pixel     *)
(* indexes its palette -- reported by the container reader as a problem).  *)
(* Relations between runs of one input: skipping N bytes equals decoding   *)
(* the input without its first N bytes; stdin / stdout give the same bytes *)
(* as files.                                                               *)
(***************************************************************************)
EXTENDS Integers, Sequences, TLC, Json, IOUtils
Cases == JsonDeserialize(IOEnv.CASES)
Isqrt(n) == CHOOSE r \in 0..200 : r * r <= n /\ (r + 1) * (r + 1) > n
Dims(cs) ==
  CASE cs.fmt = "HRS" -> <<cs.w, cs.h>>
    [] cs.fmt = "MAX" -> IF cs.newsroom THEN <<cs.hdr0 * 8, cs.hdr1>>
                         ELSE IF cs.h > 0 THEN <<cs.w, cs.h>> ELSE <<cs.w, (8 * cs.hdrsize) \div cs.w>>
    [] cs.fmt = "PIX" -> <<Isqrt(2 * cs.filelen), Isqrt(2 * cs.filelen)>>
    [] cs.fmt = "RAT" -> <<320, 199>> [] cs.fmt = "MGE" -> <<320, 200>>
    [] cs.fmt = "CM3" -> <<320, cs.h>>
    [] OTHER -> <<IF cs.veftype = 1 THEN 640 ELSE 320, IF cs.veftype = 1 THEN 400 ELSE 200>>
Spp(cs) == IF cs.fmt \in {"PIX", "VEF"} THEN 1 ELSE 3
\* the situation that explains a short / long sample count (second half of the key)
Situation(cs) == IF cs.fmt = "HRS" /\ cs.w % 2 = 1 THEN ":width-odd"
                 ELSE IF cs.fmt = "MAX" /\ Dims(cs)[1] % 8 # 0 THEN ":width-not-a-multiple-of-8" ELSE ""
V(ok, clause, key, detail) == [ok |-> ok, clause |-> clause, key |-> key, detail |-> detail]
Verdict(cs) ==
  LET g == cs.got  d == Dims(cs) IN
  IF g.status # "ok" THEN V(FALSE, "failed", "failed:" \o cs.fmt \o ":" \o g.status \o Situation(cs), cs.what)
  ELSE IF g.w # d[1] \/ g.h # d[2] THEN V(FALSE, "header", "header:" \o cs.fmt \o ":announces-other-size" \o Situation(cs), ToString(<<g.w, g.h>>) \o " want " \o ToString(d))
  ELSE IF g.nsamples # g.w * g.h * Spp(cs) THEN
       V(FALSE, "samples", "samples:" \o cs.fmt \o ":" \o (IF g.nsamples < g.w * g.h * Spp(cs) THEN "fewer" ELSE "more") \o "-than-announced" \o Situation(cs),
         ToString(g.nsamples) \o " of " \o ToString(g.w * g.h * Spp(cs)))
  ELSE IF cs.skiphash # "" /\ cs.skiphash # g.hash THEN V(FALSE, "skip", "skip:" \o cs.fmt \o ":differs-from-decoding-the-shortened-input", "")
  ELSE IF \E k \in 1..Len(cs.io) : cs.io[k].hash # g.hash THEN
       LET k == CHOOSE x \in 1..Len(cs.io) : cs.io[x].hash # g.hash IN V(FALSE, "io", "io:" \o cs.fmt \o ":" \o cs.io[k].how \o "-differs-from-files", cs.io[k].status)
  ELSE V(TRUE, "ok", "", ToString(g.nsamples))
VARIABLES ci, vd
Init == ci \in 1..Len(Cases) /\ vd = [clause |-> "todo"]
Next == vd.clause = "todo" /\ vd' = Verdict(Cases[ci]) /\ UNCHANGED ci
=============================================================================
