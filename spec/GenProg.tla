------------------------------ MODULE GenProg ------------------------------
(***************************************************************************)
(* Generator machine for whole programs: a program is a sequence of lines, *)
(* a line a sequence of statements drawn from a palette.  The palette      *)
(* (IOEnv.PALETTE, a JSON list) gives for each statement form the FOR      *)
(* variables it opens and closes and whether it must end its line; the     *)
(* machine keeps the loops lexically nested -- the fragment the properties *)
(* quantify over ("unique ascending line numbers and lexically nested      *)
(* loops").  A behaviour ends with Finish; TLC enumerates all behaviours   *)
(* (-dump) or samples them (-simulate); the harness renders the chosen     *)
(* statement indices to text.                                              *)
(***************************************************************************)
EXTENDS Integers, Sequences, FiniteSets, TLC, Json, IOUtils, SequencesExt
Palette == JsonDeserialize(IOEnv.PALETTE)   \* [open |-> <<v..>>, close |-> <<v..>>, last |-> BOOLEAN, grp |-> Nat]
CONSTANTS NLines, MaxStmts, MaxDepth, MaxPerGroup
VARIABLES lines, cur, stack, done
vars == <<lines, cur, stack, done>>

Init == lines = <<>> /\ cur = <<>> /\ stack = <<>> /\ done = FALSE

\* closing variables must match the innermost open loops, innermost first; 0 closes whatever is innermost
RECURSIVE Closes(_, _)
Closes(st, cl) == IF cl = <<>> THEN TRUE
                  ELSE st # <<>> /\ (cl[1] = 0 \/ st[Len(st)] = cl[1]) /\ Closes(SubSeq(st, 1, Len(st) - 1), Tail(cl))
CountGrp(g) == LET flat == FoldLeft(LAMBDA acc, l : acc \o l, cur, lines) IN
               Cardinality({ k \in 1..Len(flat) : Palette[flat[k]].grp = g })

AddStmt(k) ==
  /\ ~done /\ Len(cur) < MaxStmts /\ Len(lines) < NLines
  /\ IF cur = <<>> THEN TRUE ELSE ~Palette[cur[Len(cur)]].last
  /\ Closes(stack, Palette[k].close)
  /\ Len(stack) - Len(Palette[k].close) + Len(Palette[k].open) <= MaxDepth
  /\ \A v \in { Palette[k].open[j] : j \in 1..Len(Palette[k].open) } : \A q \in 1..Len(stack) : stack[q] # v
  /\ IF Palette[k].grp = 0 THEN TRUE ELSE CountGrp(Palette[k].grp) < MaxPerGroup
  /\ cur' = Append(cur, k)
  /\ stack' = SubSeq(stack, 1, Len(stack) - Len(Palette[k].close)) \o Palette[k].open
  /\ UNCHANGED <<lines, done>>
EndLine == /\ ~done /\ cur # <<>> /\ lines' = Append(lines, cur) /\ cur' = <<>> /\ UNCHANGED <<stack, done>>
Finish == /\ ~done /\ cur = <<>> /\ lines # <<>> /\ stack = <<>> /\ done' = TRUE /\ UNCHANGED <<lines, cur, stack>>
Next == (\E k \in 1..Len(Palette) : AddStmt(k)) \/ EndLine \/ Finish
Spec == Init /\ [][Next]_vars

\* ---- properties of the generator (checked on every run) ----
NestedOK == Len(stack) <= MaxDepth /\ \A i, j \in 1..Len(stack) : i # j => stack[i] # stack[j]
DoneBalanced == done => stack = <<>> /\ cur = <<>>
\* in -simulate mode the finished programs are printed (one line each) instead of dumped
Emit == done => PrintT("GEN:" \o ToJson(lines))
=============================================================================
