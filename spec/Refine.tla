------------------------------- MODULE Refine -------------------------------
(***************************************************************************)
(* The refinement relation between a Color BASIC program and the BASIC09   *)
(* text the translator produced for it: for one input script and one       *)
(* device script both programs are run on module Machine and must produce  *)
(* the same observable events, the same sequence of convertible-function   *)
(* calls, and must stop together.  The verdict is total: ok, unjudged (the *)
(* specification cannot decide: source itself fails, a value it does not   *)
(* compute, a point where BASIC09's definition is uncertain), or rejected  *)
(* with a clause and a key.  Keys are built from the failing clause on the *)
(* target side and the statement kind on the source side, never from the   *)
(* whole input (DESIGN.md 4.3).                                            *)
(***************************************************************************)
EXTENDS Machine

ObAgree(a, b) ==
  /\ a[1] = b[1] /\ a[2] = b[2] /\ a[3] = b[3]
  /\ Len(a[4]) = Len(b[4])
  /\ \/ b[5] = "NEXT-exit"        \* value of a loop variable after exit: BASIC09 uncertain (DESIGN 4.1)
     \/ \A k \in 1..Len(a[4]) : VAgree(a[4][k], b[4][k])
CallAgree(a, b) == a[1] = b[1] /\ Len(a[2]) = Len(b[2]) /\ \A k \in 1..Len(a[2]) : VAgree(a[2][k], b[2][k])
FirstDiff(xs, ys, Agree(_, _)) ==
  LET n == Min2(Len(xs), Len(ys))
      c == { k \in 1..n : ~Agree(xs[k], ys[k]) } IN
  IF c = {} THEN 0 ELSE CHOOSE k \in c : \A j \in c : k <= j

ShapeList == <<"IF-ELSEIF-noELSE", "IF-ELSEIF-ELSE", "IF-ELSE", "IF">>
SrcShapes(code) ==
  FoldLeft(LAMBDA acc, sh : IF \E k \in 1..Len(code) : code[k].op = "JF" /\ code[k].sk = sh THEN acc \o "+" \o sh ELSE acc, "", ShapeList)
ValTag(vs) == IF vs = <<>> THEN "-" ELSE vs[1][1]

V(ok, clause, key, detail) == [ok |-> ok, clause |-> clause, key |-> key, detail |-> detail, ssk |-> ""]
VS(ok, clause, key, detail, ssk) == [ok |-> ok, clause |-> clause, key |-> key, detail |-> detail, ssk |-> ssk]

\* which operand of a device call differs: the name the library gives the parameter
DevDiffName(a, b) ==
  LET kinds == KindsOf(a[2])
      names == IF kinds = {} THEN <<>> ELSE BoundNames(CHOOSE k \in kinds : TRUE)
      c == { k \in 1..Min2(Len(a[4]), Len(b[4])) : ~VAgree(a[4][k], b[4][k]) } IN
  IF c = {} THEN "?" ELSE LET k == CHOOSE q \in c : \A j \in c : q <= j IN IF k <= Len(names) THEN names[k] ELSE "?"

SpinWhere(ins) == IF ins.sk \in {"LOOP", "EXITIF", "ENDEXIT", "ENDLOOP"} THEN "LOOP-block"
                  ELSE IF ins.sk # "" THEN ins.sk ELSE ins.op
Parsed(cs) ==
  LET dp0 == DProg(cs.src)
      bp0 == BProg(cs.out) IN
  [sok |-> dp0.ok, serr |-> "source line " \o ToString(dp0.errln),
   tok |-> bp0.ok, terr |-> bp0.err, tln |-> bp0.errln,
   dp |-> [code |-> dp0.code, lab |-> dp0.lab, data |-> DataItems(dp0.code)],
   bp |-> [code |-> bp0.code, lab |-> bp0.lab, data |-> DataItems(bp0.code)]]
JudgeRun(ps, cs, inp, dev) ==
  LET dp == ps.dp
      bp == ps.bp
      sd == Run(dp, "decb", St0(inp, dev), cs.fuel)
      sb == Run(bp, "b09", Load(bp.code, St0(inp, dev)), 4 * cs.fuel + 200)
      k == FirstDiff(sd.obs, sb.obs, ObAgree)
      kc == FirstDiff(sd.calls, sb.calls, CallAgree)
      shapes == SrcShapes(dp.code) IN
  IF sd.status = "run" THEN V(TRUE, "unjudged", "src-fuel", "")
  ELSE IF sd.status = "error" THEN V(TRUE, "unjudged", "src-error", sd.why)
  ELSE IF sd.status = "unjudged" THEN V(TRUE, "unjudged", "src-" \o sd.why, "")
  ELSE IF k # 0 THEN
       LET a == sd.obs[k]  b == sb.obs[k] IN
       IF sb.status = "unjudged" /\ k = Len(sb.obs) THEN V(TRUE, "unjudged", "tgt-" \o sb.why, "")
       ELSE IF a[1] = "dev" /\ b[1] = "dev" /\ a[2] = b[2] THEN
            (IF a[3] # b[3] THEN V(FALSE, "arity", "arity:" \o b[2] \o ":passed=" \o ToString(b[3][1]) \o ":declared=" \o ToString(a[3][1]), "")
             ELSE V(FALSE, "operand", "operand:" \o b[2] \o ":" \o DevDiffName(a, b), "src=" \o a[5]))
       ELSE VS(FALSE, "obs", "obs:" \o a[1] \o "/" \o b[1] \o ":src=" \o a[5] \o ":tgt=" \o b[5] \o
                      (IF a[1] = b[1] /\ a[2] = b[2] THEN ":value(" \o ValTag(a[4]) \o "/" \o ValTag(b[4]) \o ")" ELSE ":event"),
              "event " \o ToString(k) \o " name " \o a[2] \o "/" \o b[2], a[5])
  ELSE IF sb.status = "unjudged" THEN V(TRUE, "unjudged", "tgt-" \o sb.why, "")
  ELSE IF sb.status = "undef" THEN
       LET at == bp.code[sb.pc].op \o (IF bp.code[sb.pc].op = "JF" THEN "-" \o bp.code[sb.pc].sk ELSE "") IN
       IF sb.rdundef \in TmpNames THEN
            V(FALSE, "temp-defined", "temp-defined:read-of-unassigned-temporary:at=" \o at \o
                     (IF \E q \in 1..Len(dp.code) : dp.code[q].op = "JF" /\ dp.code[q].sk \in {"IF-ELSE", "IF-ELSEIF-ELSE", "IF-ELSEIF-noELSE"}
                      THEN ":src=IF-with-ELSE" ELSE ""), sb.rdundef \o " shapes" \o shapes)
       ELSE IF cs.init THEN V(FALSE, "initial", "initial:read-of-unassigned-variable:at=" \o at, sb.rdundef \o " shapes" \o shapes)
       ELSE V(TRUE, "unjudged", "tgt-reads-unassigned-without-init", sb.rdundef)
  ELSE IF sb.status = "error" THEN
       V(FALSE, "target-error", "target-error:" \o sb.why \o ":at=" \o bp.code[sb.pc].op \o
                         (IF bp.code[sb.pc].op = "JF" THEN "-" \o bp.code[sb.pc].sk \o ":src-has=" \o shapes ELSE ""), "after " \o ToString(Len(sb.obs)) \o " events; shapes" \o shapes)
  ELSE IF sb.status = "run" THEN
       V(FALSE, "halt", "halt:target-spins-in=" \o SpinWhere(bp.code[sb.pc]) \o
                        (IF SpinWhere(bp.code[sb.pc]) = "LOOP-block" /\ \E q \in 1..Len(dp.code) : dp.code[q].op = "JF" /\ dp.code[q].sk = "IF-ELSEIF-noELSE"
                         THEN ":src=IF-ELSEIF-without-ELSE" ELSE ""), "shapes" \o shapes)
  ELSE IF Len(sd.obs) # Len(sb.obs) THEN
       V(FALSE, "obs", "obs:" \o (IF Len(sd.obs) > Len(sb.obs) THEN "missing:" \o sd.obs[Len(sb.obs) + 1][1] \o ":src=" \o sd.obs[Len(sb.obs) + 1][5]
                                  ELSE "extra:" \o sb.obs[Len(sd.obs) + 1][1]), "")
  ELSE IF kc # 0 THEN V(FALSE, "call-seq", "call-seq:want=" \o sd.calls[kc][1] \o ":got=" \o sb.calls[kc][1], "call " \o ToString(kc))
  ELSE IF Len(sd.calls) # Len(sb.calls) THEN
       VS(FALSE, "call-seq", "call-seq:" \o (IF Len(sd.calls) > Len(sb.calls) THEN "lost:" \o sd.calls[Len(sb.calls) + 1][1]
                                            ELSE "extra:" \o sb.calls[Len(sd.calls) + 1][1]), "", IF Len(sd.calls) > Len(sb.calls) THEN "lost" ELSE "extra")
  ELSE V(TRUE, "ok", "", "")

\* ---- situations on the source side that identify a known root cause (second half of a key) ----
RECURSIVE HasConv(_)
HasConv(tr) == CASE tr[1] = "call" -> tr[2] \in Convertible \/ \E k \in 1..Len(tr[3]) : HasConv(tr[3][k])
                 [] tr[1] = "idx" -> \E k \in 1..Len(tr[3]) : HasConv(tr[3][k])
                 [] tr[1] = "un" -> HasConv(tr[3]) [] tr[1] = "par" -> HasConv(tr[2])
                 [] tr[1] = "bin" -> HasConv(tr[3]) \/ HasConv(tr[4]) [] OTHER -> FALSE
\* READ / INPUT whose target has a convertible function in a subscript
ConvInReadInputSubscript(code) ==
  \E q \in 1..Len(code) : code[q].op \in {"READ", "INPUT"} /\
     \E k \in 1..Len(code[q].a) : code[q].a[k][1] = "idx" /\ \E j \in 1..Len(code[q].a[k][3]) : HasConv(code[q].a[k][3][j])
LineHas(toks, words) == \E k \in 1..Len(toks) : toks[k].k = "id" /\ toks[k].v \in words
Situate(cs, ps, vd) ==
  IF vd.ok \/ ~ConvInReadInputSubscript(ps.dp.code) THEN vd
  ELSE IF \/ (vd.clause = "parses" /\ ps.tln >= 1 /\ ps.tln <= Len(cs.out) /\ LineHas(cs.out[ps.tln], {"READ", "INPUT"}))
          \/ (vd.clause = "call-seq" /\ vd.ssk = "lost")
          \/ (vd.clause = "obs" /\ vd.ssk \in {"READ", "INPUT"})
       THEN [vd EXCEPT !.key = "lost-call:src=convertible-function-in-READ-INPUT-subscript", !.detail = vd.key \o " | " \o @]
       ELSE vd

\* one case under all its scripts: the first rejected script decides, otherwise ok / unjudged counts
JudgeAll(cs) ==
  LET ps == Parsed(cs) IN
  IF ~ps.sok THEN [V(TRUE, "machinery", "src-parse", ps.serr) EXCEPT !.detail = ps.serr]
  ELSE IF ~ps.tok THEN Situate(cs, ps, V(FALSE, "parses", "parses:" \o ps.terr, "target line " \o ToString(ps.tln)))
  ELSE LET vs == [k \in 1..Len(cs.scripts) |-> JudgeRun(ps, cs, cs.scripts[k].inp, cs.scripts[k].dev)]
           bad == { k \in 1..Len(vs) : ~vs[k].ok }
           unj == { k \in 1..Len(vs) : vs[k].clause = "unjudged" } IN
       IF bad # {} THEN LET k == CHOOSE q \in bad : \A j \in bad : q <= j IN Situate(cs, ps, [vs[k] EXCEPT !.detail = "script " \o ToString(k) \o ": " \o @])
       ELSE IF unj = {} THEN V(TRUE, "ok", "", ToString(Len(vs)))
       ELSE IF Cardinality(unj) = Len(vs) THEN LET k == CHOOSE q \in unj : TRUE IN V(TRUE, "unjudged", vs[k].key, vs[k].detail)
       ELSE V(TRUE, "ok", "", ToString(Len(vs) - Cardinality(unj)))
=============================================================================
