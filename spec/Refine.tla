------------------------------- MODULE Refine -------------------------------
(***************************************************************************)
(* The refinement relation between a Color BASIC program and the BASIC09   *)
(* text the translator produced for it: for one input script and one       *)
(* device script both programs are run on module Machine and must produce  *)
(* the same observable events, the same sequence of convertible-function   *)
(* calls, and must stop together.  The verdict is total: ok, unjudged (the *)
(* specification cannot decide: source itself fails, a value it does not   *)
(* compute, a point where BASIC09's definition is uncertain), or rejected  *)
(* with a clause and a key.  Keys are built from the failing clause on the *)
(* target side and the statement kind on the source side, never from the   *)
(* whole input (DESIGN.md 4.3).                                            *)
(***************************************************************************)
EXTENDS Machine

\* Store changes are compared per segment: between two visible events (output, prompt, device call,
\* halt) only the net change of the store is observable, not the order of the assignments.  A run of
\* "set" events becomes one "set" event whose third component maps cell <<name, subscripts>> to
\* <<value, kind of the statement that stored it>>.
Canon(obs) ==
  FoldLeft(LAMBDA acc, o :
     IF o[1] # "set" THEN Append(acc, o)
     ELSE LET cell == <<o[2], o[3]>>
              \* value of a loop variable after exit: BASIC09 uncertain (DESIGN 4.1)
              v == <<IF o[5] = "NEXT-exit" THEN Sym ELSE o[4][1], o[5]>> IN
          IF acc # <<>> /\ acc[Len(acc)][1] = "set"
          THEN [acc EXCEPT ![Len(acc)] = <<"set", "", Put(@[3], cell, v), <<>>, o[5]>>]
          ELSE Append(acc, <<"set", "", (cell :> v), <<>>, o[5]>>), <<>>, obs)
SetsAgree(f, g) == DOMAIN f = DOMAIN g /\ \A c \in DOMAIN f : VAgree(f[c][1], g[c][1])
ObAgree(a, b) ==
  /\ a[1] = b[1]
  /\ IF a[1] = "set" THEN SetsAgree(a[3], b[3])
     ELSE /\ a[2] = b[2] /\ a[3] = b[3] /\ Len(a[4]) = Len(b[4])
          /\ \A k \in 1..Len(a[4]) : VAgree(a[4][k], b[4][k])
\* the first cell on which two store-change events differ, as a key fragment
SetsDiff(f, g) ==
  LET onlyS == DOMAIN f \ DOMAIN g
      onlyT == DOMAIN g \ DOMAIN f
      both == { c \in DOMAIN f \cap DOMAIN g : ~VAgree(f[c][1], g[c][1]) } IN
  IF both # {} THEN LET c == CHOOSE x \in both : TRUE IN
       [key |-> "src=" \o f[c][2] \o ":tgt=" \o g[c][2] \o ":value(" \o f[c][1][1] \o "/" \o g[c][1][1] \o ")", name |-> c[1], ssk |-> f[c][2]]
  ELSE IF onlyS # {} THEN LET c == CHOOSE x \in onlyS : TRUE IN
       [key |-> "src=" \o f[c][2] \o ":store-missing-in-target", name |-> c[1], ssk |-> f[c][2]]
  ELSE LET c == CHOOSE x \in onlyT : TRUE IN
       [key |-> "tgt=" \o g[c][2] \o ":store-only-in-target", name |-> c[1], ssk |-> g[c][2]]
CallAgree(a, b) == a[1] = b[1] /\ Len(a[2]) = Len(b[2]) /\ \A k \in 1..Len(a[2]) : VAgree(a[2][k], b[2][k])
FirstDiff(xs, ys, Agree(_, _)) ==
  LET n == Min2(Len(xs), Len(ys))
      c == { k \in 1..n : ~Agree(xs[k], ys[k]) } IN
  IF c = {} THEN 0 ELSE CHOOSE k \in c : \A j \in c : k <= j

ShapeList == <<"IF-ELSEIF-noELSE", "IF-ELSEIF-ELSE", "IF-ELSE", "IF">>
SrcShapes(code) ==
  FoldLeft(LAMBDA acc, sh : IF \E k \in 1..Len(code) : code[k].op = "JF" /\ code[k].sk = sh THEN acc \o "+" \o sh ELSE acc, "", ShapeList)
ValTag(vs) == IF vs = <<>> THEN "-" ELSE vs[1][1]

V(ok, clause, key, detail) == [ok |-> ok, clause |-> clause, key |-> key, detail |-> detail, ssk |-> ""]
VS(ok, clause, key, detail, ssk) == [ok |-> ok, clause |-> clause, key |-> key, detail |-> detail, ssk |-> ssk]

\* which operand of a device call differs: the name the library gives the parameter
DevDiffName(a, b) ==
  LET kinds == KindsOf(a[2])
      names == IF kinds = {} THEN <<>> ELSE BoundNames(CHOOSE k \in kinds : TRUE)
      c == { k \in 1..Min2(Len(a[4]), Len(b[4])) : ~VAgree(a[4][k], b[4][k]) } IN
  IF c = {} THEN "?" ELSE LET k == CHOOSE q \in c : \A j \in c : q <= j IN IF k <= Len(names) THEN names[k] ELSE "?"

SpinWhere(ins) == IF ins.sk \in {"LOOP", "EXITIF", "ENDEXIT", "ENDLOOP"} THEN "LOOP-block"
                  ELSE IF ins.sk # "" THEN ins.sk ELSE ins.op
Parsed(cs) ==
  LET dp0 == DProg(cs.src)
      bp0 == BProg(cs.out) IN
  [sok |-> dp0.ok, serr |-> "source line " \o ToString(dp0.errln),
   tok |-> bp0.ok, terr |-> bp0.err, tln |-> bp0.errln,
   dp |-> [code |-> dp0.code, lab |-> dp0.lab, data |-> DataItems(dp0.code)],
   bp |-> [code |-> bp0.code, lab |-> bp0.lab, data |-> DataItems(bp0.code)]]
JudgeRun(ps, cs, inp, dev) ==
  LET dp == ps.dp
      bp == ps.bp
      sd == Run(dp, "decb", St0(inp, dev), cs.fuel)
      \* cs.cut (optional): the strings of the case fit the requested string size, so BASIC09's rule -- a string is cut to
      \* the declared size of the variable it is stored in -- is applied instead of leaving longer strings unjudged
      sb == Run(bp, "b09", Load(bp.code, [St0(inp, dev) EXCEPT !.cut = IF "cut" \in DOMAIN cs THEN cs.cut ELSE FALSE]), 4 * cs.fuel + 200)
      sobs == Canon(sd.obs)
      tobs == Canon(sb.obs)
      k == FirstDiff(sobs, tobs, ObAgree)
      kc == FirstDiff(sd.calls, sb.calls, CallAgree)
      shapes == SrcShapes(dp.code) IN
  IF sd.status = "run" THEN V(TRUE, "unjudged", "src-fuel", "")
  ELSE IF sd.status = "error" THEN V(TRUE, "unjudged", "src-error", sd.why)
  ELSE IF sd.status = "unjudged" THEN V(TRUE, "unjudged", "src-" \o sd.why, "")
  \* a difference in the target's last, unfinished segment is the consequence of its abnormal stop: report the stop
  ELSE IF k # 0 /\ ~(k = Len(tobs) /\ sb.status \in {"error", "undef", "run"} /\ tobs[k][1] = "set") THEN
       LET a == sobs[k]  b == tobs[k] IN
       IF sb.status = "unjudged" /\ k = Len(tobs) THEN V(TRUE, "unjudged", "tgt-" \o sb.why, "")
       ELSE IF sb.status = "undef" /\ k = Len(tobs) /\ ~cs.init /\ sb.rdundef \notin TmpNames THEN V(TRUE, "unjudged", "tgt-reads-unassigned-without-init", sb.rdundef)
       ELSE IF a[1] = "set" /\ b[1] = "set" THEN
            LET d == SetsDiff(a[3], b[3]) IN VS(FALSE, "obs", "obs:set/set:" \o d.key, "event " \o ToString(k) \o " name " \o d.name, d.ssk)
       ELSE IF a[1] = "dev" /\ b[1] = "dev" /\ a[2] = b[2] THEN
            (IF a[3] # b[3] THEN V(FALSE, "arity", "arity:" \o b[2] \o ":passed=" \o ToString(b[3][1]) \o ":declared=" \o ToString(a[3][1]), "")
             ELSE V(FALSE, "operand", "operand:" \o b[2] \o ":" \o DevDiffName(a, b), "src=" \o a[5]))
       ELSE VS(FALSE, "obs", "obs:" \o a[1] \o "/" \o b[1] \o ":src=" \o a[5] \o ":tgt=" \o b[5] \o
                      (IF a[1] = b[1] /\ a[2] = b[2] THEN ":value(" \o ValTag(a[4]) \o "/" \o ValTag(b[4]) \o ")" ELSE ":event"),
              "event " \o ToString(k) \o " name " \o a[2] \o "/" \o b[2], a[5])
  ELSE IF sb.status = "unjudged" THEN V(TRUE, "unjudged", "tgt-" \o sb.why, "")
  ELSE IF sb.status = "undef" THEN
       LET at == bp.code[sb.epc].op \o (IF bp.code[sb.epc].op = "JF" THEN "-" \o bp.code[sb.epc].sk ELSE "") IN
       IF sb.rdundef \in TmpNames THEN
            V(FALSE, "temp-defined", "temp-defined:read-of-unassigned-temporary:at=" \o at \o
                     (IF \E q \in 1..Len(dp.code) : dp.code[q].op = "JF" /\ dp.code[q].sk \in {"IF-ELSE", "IF-ELSEIF-ELSE", "IF-ELSEIF-noELSE"}
                      THEN ":src=IF-with-ELSE" ELSE ""), sb.rdundef \o " shapes" \o shapes)
       ELSE IF cs.init THEN VS(FALSE, "initial", "initial:read-of-unassigned-variable:at=" \o at, sb.rdundef \o " shapes" \o shapes, bp.code[sb.epc].op)
       ELSE V(TRUE, "unjudged", "tgt-reads-unassigned-without-init", sb.rdundef)
  ELSE IF sb.status = "error" THEN
       VS(FALSE, "target-error", "target-error:" \o sb.why \o ":at=" \o bp.code[sb.epc].op \o
                         (IF bp.code[sb.epc].op = "JF" THEN "-" \o bp.code[sb.epc].sk \o ":src-has=" \o shapes
                          ELSE IF bp.code[sb.epc].op = "RUN" THEN "-" \o bp.code[sb.epc].x ELSE ""), "after " \o ToString(Len(tobs)) \o " events; shapes" \o shapes,
          bp.code[sb.epc].op)
  ELSE IF sb.status = "run" THEN
       V(FALSE, "halt", "halt:target-spins-in=" \o SpinWhere(bp.code[sb.pc]) \o
                        (IF SpinWhere(bp.code[sb.pc]) = "LOOP-block" /\ \E q \in 1..Len(dp.code) : dp.code[q].op = "JF" /\ dp.code[q].sk = "IF-ELSEIF-noELSE"
                         THEN ":src=IF-ELSEIF-without-ELSE" ELSE ""), "shapes" \o shapes)
  ELSE IF Len(sobs) # Len(tobs) THEN
       V(FALSE, "obs", "obs:" \o (IF Len(sobs) > Len(tobs) THEN "missing:" \o sobs[Len(tobs) + 1][1] \o ":src=" \o sobs[Len(tobs) + 1][5]
                                  ELSE "extra:" \o tobs[Len(sobs) + 1][1]), "")
  ELSE IF kc # 0 THEN V(FALSE, "call-seq", "call-seq:want=" \o sd.calls[kc][1] \o ":got=" \o sb.calls[kc][1], "call " \o ToString(kc))
  ELSE IF Len(sd.calls) # Len(sb.calls) THEN
       VS(FALSE, "call-seq", "call-seq:" \o (IF Len(sd.calls) > Len(sb.calls) THEN "lost:" \o sd.calls[Len(sb.calls) + 1][1]
                                            ELSE "extra:" \o sb.calls[Len(sd.calls) + 1][1]), "", IF Len(sd.calls) > Len(sb.calls) THEN "lost" ELSE "extra")
  ELSE V(TRUE, "ok", "", "")

\* ---- situations on the source side that identify a known root cause (second half of a key) ----
RECURSIVE HasConv(_)
HasConv(tr) == CASE tr[1] = "call" -> tr[2] \in Convertible \/ \E k \in 1..Len(tr[3]) : HasConv(tr[3][k])
                 [] tr[1] = "idx" -> \E k \in 1..Len(tr[3]) : HasConv(tr[3][k])
                 [] tr[1] = "un" -> HasConv(tr[3]) [] tr[1] = "par" -> HasConv(tr[2])
                 [] tr[1] = "bin" -> HasConv(tr[3]) \/ HasConv(tr[4]) [] OTHER -> FALSE
\* scalar variables of a tree / of an instruction (source side)
RECURSIVE ScalarVars(_)
ScalarVarsSeq(ts) == UNION { ScalarVars(ts[k]) : k \in 1..Len(ts) }
ScalarVars(tr) == CASE tr[1] = "var" -> {tr[2]} [] tr[1] = "idx" -> ScalarVarsSeq(tr[3]) [] tr[1] = "call" -> ScalarVarsSeq(tr[3])
                    [] tr[1] = "un" -> ScalarVars(tr[3]) [] tr[1] = "par" -> ScalarVars(tr[2])
                    [] tr[1] = "bin" -> ScalarVars(tr[3]) \cup ScalarVars(tr[4]) [] OTHER -> {}
InsScalarVars(ins) == IF ins.op \in {"DIM", "PARAM", "TYPE", "DATA", "REM", "PROC", "BASE"} THEN {}
                      ELSE ScalarVars(ins.e) \cup ScalarVars(ins.e2) \cup ScalarVars(ins.e3) \cup (IF ins.op = "ONGO" THEN {} ELSE ScalarVarsSeq(ins.a))
                           \cup (IF ins.op \in {"FOR", "NEXT"} THEN {ins.x} ELSE {})
\* some scalar variable occurs inside the subscripts of READ/INPUT targets and nowhere outside READ/INPUT statements
VarOnlyInReadInputTargets(code) ==
  LET inside == UNION { UNION { ScalarVarsSeq(code[q].a[k][3]) : k \in { j \in 1..Len(code[q].a) : code[q].a[j][1] = "idx" } }
                        : q \in { j \in 1..Len(code) : code[j].op \in {"READ", "INPUT"} } }
      outside == UNION { InsScalarVars(code[q]) : q \in { j \in 1..Len(code) : code[j].op \notin {"READ", "INPUT"} } } IN
  inside \ outside # {}
\* READ / INPUT whose target has a convertible function in a subscript
ConvInReadInputSubscript(code) ==
  \E q \in 1..Len(code) : code[q].op \in {"READ", "INPUT"} /\
     \E k \in 1..Len(code[q].a) : code[q].a[k][1] = "idx" /\ \E j \in 1..Len(code[q].a[k][3]) : HasConv(code[q].a[k][3][j])
\* is the tree a string-valued expression?
StrFuns == {"LEFT$", "RIGHT$", "MID$", "CHR$", "STR$", "HEX$", "STRING$", "INKEY$"}
RECURSIVE IsStrTree(_)
IsStrTree(tr) == CASE tr[1] = "str" -> TRUE [] tr[1] = "var" -> tr[3] = "$" [] tr[1] = "idx" -> tr[4] = "$"
                   [] tr[1] = "call" -> tr[2] \in StrFuns [] tr[1] = "par" -> IsStrTree(tr[2])
                   [] tr[1] = "bin" -> tr[2] = "+" /\ IsStrTree(tr[3]) [] OTHER -> FALSE
HPrintNumeric(code) == \E q \in 1..Len(code) : code[q].op = "DEV" /\ code[q].x = "HPRINT" /\ Len(code[q].a) = 3 /\ ~IsStrTree(code[q].a[3])
LineHas(toks, words) == \E k \in 1..Len(toks) : toks[k].k = "id" /\ toks[k].v \in words
Situate(cs, ps, vd) ==
  IF vd.ok THEN vd
  ELSE IF HPrintNumeric(ps.dp.code) /\ vd.key \in {"target-error:type:assignment:at=RUN-ECB_STR", "operand:ECB_HPRINT:TXT"}
       THEN [vd EXCEPT !.key = @ \o ":src=HPRINT-of-a-number"]
  \* a variable that occurs only inside the subscripts of READ/INPUT targets is not pre-initialised: array targets of READ
  \* and INPUT are not visited (the root cause of the undeclared-array findings)
  ELSE IF vd.clause = "initial" /\ vd.ssk \in {"READ", "INPUT"} /\ VarOnlyInReadInputTargets(ps.dp.code)
       THEN [vd EXCEPT !.key = "initial:read-of-unassigned-variable:src=variable-only-inside-READ-INPUT-target-subscripts"]
  ELSE IF ~ConvInReadInputSubscript(ps.dp.code) THEN vd
  ELSE IF \/ (vd.clause = "parses" /\ ps.tln >= 1 /\ ps.tln <= Len(cs.out) /\ LineHas(cs.out[ps.tln], {"READ", "INPUT"}))
          \/ (vd.clause = "call-seq" /\ vd.ssk = "lost")
          \/ (vd.clause \in {"obs", "target-error"} /\ vd.ssk \in {"READ", "INPUT"})
       THEN [vd EXCEPT !.key = "lost-call:src=convertible-function-in-READ-INPUT-subscript", !.detail = vd.key \o " | " \o @]
       ELSE vd

\* one case under all its scripts: the first rejected script decides, otherwise ok / unjudged counts
JudgeAll(cs) ==
  LET ps == Parsed(cs) IN
  IF ~ps.sok THEN [V(TRUE, "machinery", "src-parse", ps.serr) EXCEPT !.detail = ps.serr]
  ELSE IF ~ps.tok THEN Situate(cs, ps, V(FALSE, "parses", "parses:" \o ps.terr, "target line " \o ToString(ps.tln)))
  ELSE LET vs == [k \in 1..Len(cs.scripts) |-> JudgeRun(ps, cs, cs.scripts[k].inp, cs.scripts[k].dev)]
           bad == { k \in 1..Len(vs) : ~vs[k].ok }
           unj == { k \in 1..Len(vs) : vs[k].clause = "unjudged" } IN
       IF bad # {} THEN LET k == CHOOSE q \in bad : \A j \in bad : q <= j IN Situate(cs, ps, [vs[k] EXCEPT !.detail = "script " \o ToString(k) \o ": " \o @])
       ELSE IF unj = {} THEN V(TRUE, "ok", "", ToString(Len(vs)))
       ELSE IF Cardinality(unj) = Len(vs) THEN LET k == CHOOSE q \in unj : TRUE IN V(TRUE, "unjudged", vs[k].key, vs[k].detail)
       ELSE V(TRUE, "ok", "", ToString(Len(vs) - Cardinality(unj)))
=============================================================================
