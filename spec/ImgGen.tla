------------------------------- MODULE ImgGen -------------------------------
(***************************************************************************)
(* Encoder machine for the byte-oriented formats (property C17's           *)
(* "nondeterministic reference encoder"; restricted to the raw actions it  *)
(* is the uncompressed layout of C16).  The data area of a picture is      *)
(* Total bytes; img is the abstract content built so far (byte runs), out  *)
(* the file body emitted for it.  Each action encodes the next stretch:    *)
(*   Raw(v, n)        n literal bytes v            (all formats)           *)
(*   Noise(a, b, n)   n literal bytes (a*i+b)%256  (content with no runs)  *)
(*   RatRep(n, v)     escape n v                   (RAT; also the only way *)
(*                    to store a byte equal to the escape byte)            *)
(*   MgeRep(n, v)     n v                          (MGE run-length body)   *)
(*   Finish           end marker where the format has one                  *)
(* Run lengths come from Lens (boundary values 1, 2, 127, 128, 129, 254,   *)
(* 255 ...) and are cut to what is left; runs therefore also end exactly   *)
(* at, and cross, line boundaries (a line is LineLen bytes).               *)
(***************************************************************************)
EXTENDS Img
CONSTANTS Format,       \* "RAW" | "RAT" | "MGE"
          Total, LineLen, Esc, Vals, Lens, NoiseSet
\* multipliers/offsets of the noise stretches (a odd: all 256 byte values occur; a multiple of 16: the low nibble is fixed)
NoiseTable == << <<7, 3>>, <<13, 128>>, <<255, 0>>, <<1, 0>>, <<16, 3>>, <<48, 5>> >>
NoiseAB == { NoiseTable[k] : k \in NoiseSet }
VARIABLES img, out, rem, done, pal, cmp
vars == <<img, out, rem, done, pal, cmp>>
CONSTANTS AllowRep,     \* FALSE: only the literal actions (the uncompressed layout / literal-only encodings)
          Header,       \* "RAT" | "MGE-RLE" | "MGE-RAW" | "HRS" | "VEF" | "NONE"
          Skip, VefType, PalSet
\* palette k: slot i holds code (k + 4 i) mod 64 -- over k = 0..63 every slot sees every code, over k = 0..3 every
\* code occurs.  An element of PalSet is k + 64 * kind: kind 0 leaves the palette kind of an MGE file open, 1 = RGB, 2 = composite
Palette(k) == [i \in 1..16 |-> ((k % 64) + 4 * i) % 64]
Title == <<84, 76, 65>> \o <<0>> \o [i \in 1..26 |-> 32]      \* "TLA", NUL, padding: 30 bytes
HeaderBytes(p, c) ==
  CASE Header = "RAT" -> <<Esc, 1, 0>> \o p
    [] Header = "MGE-RLE" -> <<0>> \o p \o <<c, 0>> \o Title \o <<0, 0>>
    \* (any non-zero storage flag means "not run-length coded"; Skip, unused by this layout, selects the flag value)
    [] Header = "MGE-RAW" -> <<0>> \o p \o <<c, IF Skip = 0 THEN 255 ELSE Skip>> \o Title \o <<0, 0>>
    [] Header = "HRS" -> [i \in 1..Skip |-> (37 * i) % 256] \o p
    [] Header = "VEF" -> <<0, VefType>> \o p
    \* MAX: 0, data length (big endian), two unused bytes; Newsroom ART: bytes per row, rows
    [] Header = "MAX" -> [i \in 1..Skip |-> (37 * i) % 256] \o <<0, Total \div 256, Total % 256, 0, 0>>
    [] Header = "NEWS" -> <<LineLen, Total \div LineLen>>
    [] OTHER -> <<>>


MinI(a, b) == IF a < b THEN a ELSE b
AddRun(runs, v, n) == IF n <= 0 THEN runs
                      ELSE IF runs # <<>> /\ runs[Len(runs)][1] = v THEN [runs EXCEPT ![Len(runs)] = <<v, @[2] + n>>]
                      ELSE Append(runs, <<v, n>>)
Init == /\ img = <<>> /\ rem = Total /\ done = FALSE
        /\ \E k \in PalSet : /\ pal = Palette(k)
                             /\ cmp \in (IF Header \in {"MGE-RLE", "MGE-RAW"} THEN (IF k \div 64 = 0 THEN {0, 1} ELSE {(k \div 64) - 1}) ELSE {0})
        /\ out = <<>>                     \* the body; the file is HeaderBytes(pal, cmp) followed by it

Raw(v, n0) == LET n == MinI(n0, rem) IN
  /\ ~done /\ rem > 0 /\ Format \in {"RAW", "RAT"} /\ (Format = "RAT" => v # Esc)
  /\ img' = AddRun(img, v, n) /\ out' = AddRun(out, v, n) /\ rem' = rem - n /\ UNCHANGED <<done, pal, cmp>>
NoiseByte(a, b, i) == LET v == (a * i + b) % 256 IN IF Format = "RAT" /\ v = Esc THEN (v + 1) % 256 ELSE v
Noise(a, b, n0) == LET n == MinI(n0, rem) IN
  /\ ~done /\ rem > 0 /\ Format \in {"RAW", "RAT"}
  /\ img' = FoldLeft(LAMBDA r, i : AddRun(r, NoiseByte(a, b, i), 1), img, [i \in 1..n |-> i])
  /\ out' = FoldLeft(LAMBDA r, i : AddRun(r, NoiseByte(a, b, i), 1), out, [i \in 1..n |-> i])
  /\ rem' = rem - n /\ UNCHANGED <<done, pal, cmp>>
RatRep(n0, v) == LET n == MinI(n0, rem) IN
  /\ ~done /\ rem > 0 /\ Format = "RAT" /\ n <= 255 /\ (AllowRep \/ v = Esc)
  /\ img' = AddRun(img, v, n)
  /\ out' = Append(Append(Append(out, <<Esc, 1>>), <<n, 1>>), <<v, 1>>)       \* never merged: three distinct bytes
  /\ rem' = rem - n /\ UNCHANGED <<done, pal, cmp>>
\* the last repeat record may announce more bytes than the picture still needs: the decoder takes what is missing
RatOver(n0, v) ==
  /\ ~done /\ rem > 0 /\ Format = "RAT" /\ AllowRep /\ n0 > rem /\ n0 <= 255
  /\ img' = AddRun(img, v, rem)
  /\ out' = Append(Append(Append(out, <<Esc, 1>>), <<n0, 1>>), <<v, 1>>)
  /\ rem' = 0 /\ UNCHANGED <<done, pal, cmp>>
MgeRep(n0, v) == LET n == MinI(n0, rem) IN
  /\ ~done /\ rem > 0 /\ Format = "MGE" /\ n >= 1 /\ n <= 255
  /\ img' = AddRun(img, v, n) /\ out' = Append(Append(out, <<n, 1>>), <<v, 1>>)
  /\ rem' = rem - n /\ UNCHANGED <<done, pal, cmp>>
Finish == /\ ~done /\ rem = 0 /\ done' = TRUE
          /\ out' = IF Format = "MGE" THEN Append(out, <<0, 1>>) ELSE out
          /\ UNCHANGED <<img, rem, pal, cmp>>
Next == \/ \E v \in Vals, n \in Lens : Raw(v, n) \/ RatRep(n, v) \/ RatOver(n, v) \/ MgeRep(n, v)
        \/ \E ab \in NoiseAB, n \in Lens : Noise(ab[1], ab[2], n)
        \/ Finish
Spec == Init /\ [][Next]_vars

\* ---- the decoders, as folds over the file body (toy sizes: out expanded to bytes) ----
\* RAT: state <<mode, count, runs, left>>; mode 0 = expect literal or escape, 1 = expect count, 2 = expect value
RatDecode(bytes, total) ==
  FoldLeft(LAMBDA s, b :
     IF s.left <= 0 THEN s
     ELSE IF s.mode = 0 THEN (IF b = Esc THEN [s EXCEPT !.mode = 1] ELSE [s EXCEPT !.runs = AddRun(@, b, 1), !.left = @ - 1])
     ELSE IF s.mode = 1 THEN [s EXCEPT !.mode = 2, !.count = b]
     ELSE [s EXCEPT !.mode = 0, !.runs = AddRun(@, b, MinI(s.count, s.left)), !.left = @ - MinI(s.count, s.left)],
     [mode |-> 0, count |-> 0, runs |-> <<>>, left |-> total], bytes)
\* MGE: pairs (count, value) up to the 0 count
MgeDecode(bytes) ==
  FoldLeft(LAMBDA s, b :
     IF s.end THEN s
     ELSE IF s.mode = 0 THEN (IF b = 0 THEN [s EXCEPT !.end = TRUE] ELSE [s EXCEPT !.mode = 1, !.count = b])
     ELSE [s EXCEPT !.mode = 0, !.runs = AddRun(@, b, s.count)],
     [mode |-> 0, count |-> 0, runs |-> <<>>, end |-> FALSE], bytes)
Body == out
Decoded == CASE Format = "RAT" -> RatDecode(Expand(Body), Total).runs
             [] Format = "MGE" -> MgeDecode(Expand(Body)).runs
             [] OTHER -> FoldLeft(LAMBDA r, x : AddRun(r, x[1], x[2]), <<>>, Body)
\* (M) every finished behaviour of the encoder decodes to the abstract image
RoundTrip == done => Decoded = img
Complete == done => NBytes(img) = Total
EmitDone == done => PrintT(<<"GEN", pal, cmp, img, HeaderBytes(pal, cmp), out>>)
=============================================================================
