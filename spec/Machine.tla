------------------------------ MODULE Machine ------------------------------
(***************************************************************************)
(* One abstract machine for both languages.  A program is an instruction   *)
(* list (modules B09 and Decb compile to the same records); the state is   *)
(*   pc, env (scalars), arr (arrays), fs (Color BASIC FOR stack), fl       *)
(*   (BASIC09 per-FOR limit/step), gs (GOSUB stack), dp (DATA pointer),    *)
(*   inp (input script), dev (device script), oct (octave flag), obs       *)
(*   (observable events), calls (convertible-function calls, in order),    *)
(*   status.                                                               *)
(* Step(prog, lang, st) executes one instruction.  What differs between    *)
(* the languages is confined to: expression evaluation (EvD / EvB), the    *)
(* truth of a condition, FOR/NEXT discipline, array declaration, and the   *)
(* undefined-variable policy.                                              *)
(*                                                                         *)
(* Observations.  obs holds <<kind, name, subscripts, values, sk>>:        *)
(*   "set"   a user variable/element changed its value                     *)
(*   "out"   one element of PRINT output ("v" value, "tab", "nl", "tabto") *)
(*   "input" a prompt was shown                                            *)
(*   "dev"   a device statement reached the runtime: name = procedure,     *)
(*           values = operand values in role order (see DevSig)            *)
(*   "halt"  the program stopped                                           *)
(* Names are the identifiers of the *target* program: the specification    *)
(* states the naming convention (array A is ARR_A) once, in TargetName.    *)
(***************************************************************************)
EXTENDS Lib

EmptyF == [x \in {} |-> 0]
HasKey(f, k) == k \in DOMAIN f
Put(f, k, v) == IF k \in DOMAIN f THEN [f EXCEPT ![k] = v] ELSE f @@ (k :> v)

TargetName(name, isArr) == IF isArr THEN "ARR_" \o name ELSE name

TmpNames == {"TMP_1", "TMP_2", "TMP_3", "TMP_4", "TMP_5", "TMP_6", "TMP_7", "TMP_8", "TMP_9", "TMP_10", "TMP_11", "TMP_12",
             "TMP_1$", "TMP_2$", "TMP_3$", "TMP_4$", "TMP_5$", "TMP_6$", "TMP_7$", "TMP_8$", "TMP_9$", "TMP_10$", "TMP_11$", "TMP_12$"}
RuntimeRefs == {"DISPLAY", "PLAY", "PID", "DISPLAY.HFORE", "DISPLAY.HBCK", "DISPLAY.FORE", "DISPLAY.BCK"}
TargetOnly == TmpNames \cup RuntimeRefs \cup {"ERNO", "ERRNUM", "PLAY.OCT", "PLAY.OCTO", "PLAY.LNT", "PLAY.TNE", "PLAY.VOL", "PLAY.DOT",
                                               "JOY0X", "JOY0Y", "JOY1X", "JOY1Y"}
Ref(name) == <<"ref", name, 0>>

Default(ty) == IF ty = "$" THEN Str(<<>>) ELSE Zero
Ob(kind, name, idx, vals, sk) == <<kind, name, idx, vals, sk>>

St0(inp, dev) ==
  [pc |-> 1, env |-> EmptyF, arr |-> EmptyF, fs |-> <<>>, fl |-> EmptyF, gs |-> <<>>, dp |-> 1,
   inp |-> inp, dev |-> dev, oct |-> 0, obs |-> <<>>, calls |-> <<>>, status |-> "run", why |-> "",
   onerr |-> -1, onbrk |-> -1, steps |-> 0, rdundef |-> "", epc |-> 0,
   \* BASIC09 points this specification leaves open (DESIGN.md 4.1) unless a check fixes them to explore both answers:
   \* ztp: a FOR whose start is beyond its end -- "either" (unjudged), "top" (body skipped), "bottom" (body runs once)
   \* cut: a string longer than the declared size -- FALSE (unjudged), TRUE (cut to the size, BASIC09's rule)
   ztp |-> "either", cut |-> FALSE]
Stop(st, status, why) == [st EXCEPT !.status = status, !.why = why]

(* ---------------------------- text <-> numbers ---------------------------- *)
\* Value Color BASIC's VAL / READ / INPUT gives to a text: optional sign, digits, optional fraction.
\* Anything the model does not cover (exponents, &H, embedded blanks) is "sym".
DecDigits(s) == \A k \in 1..Len(s) : IsDigit(s[k])
RECURSIVE DigitsVal(_, _)
DigitsVal(s, acc) == IF s = <<>> THEN acc ELSE IF acc > 2000 THEN 999999 ELSE DigitsVal(Tail(s), acc * 10 + (s[1] - 48))
IsHexDigit(c) == IsDigit(c) \/ (c >= 65 /\ c <= 70)
RECURSIVE HexVal(_, _)
HexVal(s, acc) == IF s = <<>> THEN acc ELSE HexVal(Tail(s), acc * 16 + (IF IsDigit(s[1]) THEN s[1] - 48 ELSE s[1] - 55))
TrimL(s) == LET c == { k \in 1..Len(s) : s[k] # 32 } IN IF c = {} THEN <<>> ELSE SubSeq(s, CHOOSE k \in c : \A j \in c : k <= j, Len(s))
TrimR(s) == LET c == { k \in 1..Len(s) : s[k] # 32 } IN IF c = {} THEN <<>> ELSE SubSeq(s, 1, CHOOSE k \in c : \A j \in c : k >= j)
TextVal0(s0) ==
  LET s == TrimR(TrimL(s0))
      neg == s # <<>> /\ s[1] = 45
      body == IF s # <<>> /\ s[1] \in {43, 45} THEN Tail(s) ELSE s
      dots == { k \in 1..Len(body) : body[k] = 46 }
      ip == IF dots = {} THEN body ELSE SubSeq(body, 1, (CHOOSE k \in dots : TRUE) - 1)
      fp == IF dots = {} THEN <<>> ELSE SubSeq(body, (CHOOSE k \in dots : TRUE) + 1, Len(body)) IN
  IF s = <<>> THEN Zero
  ELSE IF Len(s) >= 3 /\ s[1] = 38 /\ s[2] = 72 /\ Len(s) <= 6 /\ \A k \in 3..Len(s) : IsHexDigit(s[k]) THEN Q(HexVal(SubSeq(s, 3, Len(s)), 0), 1)
  ELSE IF body = <<46>> THEN Zero
  ELSE IF Cardinality(dots) > 1 \/ ~DecDigits(ip) \/ ~DecDigits(fp) \/ (ip = <<>> /\ fp = <<>>) THEN
       (IF body # <<>> /\ ~IsDigit(body[1]) /\ body[1] # 46 THEN (IF body[1] = 38 THEN Sym ELSE Zero) ELSE Sym)
  ELSE IF Len(ip) > 4 \/ Len(fp) > 3 THEN Sym
  ELSE LET iv == DigitsVal(ip, 0)  fv == DigitsVal(fp, 0)
           den == PowI(10, Len(fp))
           q == Q(iv * den + fv, den) IN
       IF IsNum(q) /\ neg THEN Neg(q) ELSE q
\* mantissa E exponent (Color BASIC: an exponent without digits is 0, a mantissa without digits is 0, signs fold)
SplitAtE(s) == LET c == { k \in 1..Len(s) : s[k] = 69 } IN
               IF c = {} THEN <<s, <<>>, FALSE>> ELSE LET k == CHOOSE x \in c : \A y \in c : x <= y IN <<SubSeq(s, 1, k - 1), SubSeq(s, k + 1, Len(s)), TRUE>>
NoBlanks(s) == SelectSeq(s, LAMBDA c : c # 32)
SignOf(s) == LET lead == { k \in 1..Len(s) : \A j \in 1..k : s[j] \in {43, 45} }
                 n == Cardinality({ k \in lead : s[k] = 45 }) IN <<Cardinality(lead), n % 2 = 1>>
ExpVal(e) == LET sg == SignOf(e)  ds == SubSeq(e, sg[1] + 1, Len(e)) IN
             IF ~DecDigits(ds) \/ Len(ds) > 2 THEN 99 ELSE (IF sg[2] THEN -1 ELSE 1) * DigitsVal(ds, 0)
TextVal(s00) ==
  LET sp == SplitAtE(NoBlanks(s00))
      hasE == sp[3]
      sg0 == SignOf(sp[1])
      \* plain decimal text with the leading signs folded into at most one minus
      s0 == IF hasE \/ sg0[1] > 1 THEN (IF sg0[2] THEN <<45>> ELSE <<>>) \o SubSeq(sp[1], sg0[1] + 1, Len(sp[1])) ELSE s00
      ev == IF hasE THEN ExpVal(sp[2]) ELSE 0
      Scale(v) == IF ~hasE \/ ~IsNum(v) THEN v ELSE IF ev = 99 \/ ev > 4 \/ ev < -4 THEN Sym
                  ELSE IF ev >= 0 THEN Mul(v, Num(PowI(10, ev))) ELSE Div(v, Num(PowI(10, -ev))) IN
  Scale(TextVal0(IF hasE /\ SubSeq(sp[1], sg0[1] + 1, Len(sp[1])) \in {<<>>, <<46>>} THEN <<48>> ELSE s0))
HexDigit(n) == IF n < 10 THEN 48 + n ELSE 55 + n
RECURSIVE HexText(_)
HexText(n) == IF n < 16 THEN <<HexDigit(n)>> ELSE HexText(n \div 16) \o <<HexDigit(n % 16)>>
\* a convertible function applied to argument values, as Color BASIC defines it
FunVal(f, a) ==
  CASE f = "INT" -> IF IsNum(a[1]) THEN Floor(a[1]) ELSE Worst(a[1], a[1])
    [] f = "VAL" -> IF IsStr(a[1]) THEN TextVal(a[1][2]) ELSE IF a[1][1] = "fmt" THEN <<"num", a[1][2], a[1][3]>> ELSE Worst(a[1], a[1])
    [] f = "STR$" -> IF IsNum(a[1]) THEN Fmt(a[1]) ELSE Worst(a[1], a[1])
    [] f = "HEX$" -> IF IsInt(a[1]) /\ a[1][2] >= 0 THEN Str(HexText(a[1][2])) ELSE IF IsNum(a[1]) THEN Sym ELSE Worst(a[1], a[1])
    [] f = "INSTR" -> IF IsInt(a[1]) /\ IsStr(a[2]) /\ IsStr(a[3]) THEN
                         (IF a[1][2] < 1 THEN Err("fc") ELSE IF a[3][2] = <<>> THEN Sym ELSE Num(InstrS(a[1][2], a[2][2], a[3][2])))
                      ELSE Sym
    [] f = "STRING$" -> IF IsInt(a[1]) /\ IsStr(a[2]) THEN
                           (IF a[1][2] < 0 \/ a[1][2] > 255 \/ a[2][2] = <<>> THEN Err("fc") ELSE Str(RepS(a[2][2][1], a[1][2])))
                        ELSE Sym
    [] OTHER -> Sym
DevFuns == {"INKEY$", "BUTTON", "JOYSTK", "POINT"}
\* device functions draw their result from the device script
DevVal(f, n) == IF f = "INKEY$" THEN Str(IF n = 0 THEN <<>> ELSE <<64 + n>>) ELSE Num(n)

(* ------------------------------ arrays ------------------------------ *)
\* an array: [dims |-> <<upper bounds>>, cells |-> index tuple -> value]
InRange(idx, dims) == Len(idx) = Len(dims) /\ \A k \in 1..Len(idx) : idx[k] >= 0 /\ idx[k] <= dims[k]
IdxInts(vals) == \A k \in 1..Len(vals) : IsInt(vals[k])
IdxOf(vals) == [k \in 1..Len(vals) |-> vals[k][2]]
ArrGet(st, name, idx, ty) == IF HasKey(st.arr[name].cells, idx) THEN st.arr[name].cells[idx] ELSE Default(ty)

(* --------------------------- Color BASIC evaluation --------------------------- *)
\* returns <<value, state>>; the state collects convertible-function calls and consumes the device script
RECURSIVE EvD(_, _), EvDArgs(_, _, _)
EvDArgs(args, st, acc) ==
  IF args = <<>> THEN <<acc, st>>
  ELSE LET r == EvD(args[1], st) IN EvDArgs(Tail(args), r[2], Append(acc, r[1]))
FirstBad(vals) == LET c == { k \in 1..Len(vals) : IsBad(vals[k]) } IN
                  IF c = {} THEN 0 ELSE CHOOSE k \in c : \A j \in c : k <= j
DArith(op, a, b) ==
  IF IsBad(a) \/ IsBad(b) THEN Worst(a, b)
  ELSE IF op = "+" /\ IsStr(a) /\ IsStr(b) THEN Str(a[2] \o b[2])
  ELSE IF op = "+" /\ (a[1] \in {"str", "fmt"}) /\ (b[1] \in {"str", "fmt"}) THEN Sym
  ELSE IF ~IsNum(a) \/ ~IsNum(b) THEN Err("tm")
  ELSE CASE op = "+" -> Add(a, b) [] op = "-" -> Sub(a, b) [] op = "*" -> Mul(a, b)
         [] op = "/" -> Div(a, b) [] op = "^" -> Pow(a, b) [] OTHER -> Err("op")
DRel(op, a, b) ==
  IF IsBad(a) \/ IsBad(b) THEN Worst(a, b)
  ELSE IF IsNum(a) /\ IsNum(b) THEN Num(IF Rel(op, a, b) THEN -1 ELSE 0)
  ELSE IF IsStr(a) /\ IsStr(b) THEN Num(IF StrRel(op, a[2], b[2]) THEN -1 ELSE 0)
  ELSE IF a[1] \in {"str", "fmt"} /\ b[1] \in {"str", "fmt"} THEN Sym
  ELSE Err("tm")
DLogic(op, a, b) ==
  IF IsBad(a) \/ IsBad(b) THEN Worst(a, b)
  ELSE IF ~IsNum(a) \/ ~IsNum(b) THEN Err("tm") ELSE Logic(op, a, b)
Sqr(a) == IF ~IsNum(a) THEN a ELSE IF a[2] < 0 THEN Err("fc")
          ELSE IF a[3] = 1 /\ a[2] \in {0, 1, 4, 9, 16, 25} THEN Num(CHOOSE r \in 0..5 : r * r = a[2]) ELSE Sym
\* built-in functions that mean the same in both languages (on values in range)
PureFun(f, a) ==
  LET x == a[1] IN
  IF FirstBad(a) # 0 THEN a[FirstBad(a)]
  ELSE CASE f = "ABS" -> IF IsNum(x) THEN AbsV(x) ELSE Err("tm")
    [] f = "SGN" -> IF IsNum(x) THEN Sgn(x) ELSE Err("tm")
    [] f \in {"SQR", "SQRT"} -> IF IsNum(x) THEN Sqr(x) ELSE Err("tm")
    [] f = "LEN" -> IF IsStr(x) THEN Num(Len(x[2])) ELSE IF x[1] = "fmt" THEN Sym ELSE Err("tm")
    [] f = "ASC" -> IF IsStr(x) THEN (IF x[2] = <<>> THEN Err("fc") ELSE Num(x[2][1])) ELSE IF x[1] = "fmt" THEN Sym ELSE Err("tm")
    [] f = "CHR$" -> IF IsInt(x) /\ x[2] >= 0 /\ x[2] <= 255 THEN Str(<<x[2]>>) ELSE IF IsNum(x) THEN Sym ELSE Err("tm")
    [] f = "LEFT$" -> IF IsStr(x) /\ IsInt(a[2]) THEN (IF a[2][2] < 0 THEN Err("fc") ELSE Str(LeftS(x[2], a[2][2]))) ELSE IF x[1] \in {"str", "fmt"} /\ IsNum(a[2]) THEN Sym ELSE Err("tm")
    [] f = "RIGHT$" -> IF IsStr(x) /\ IsInt(a[2]) THEN (IF a[2][2] < 0 THEN Err("fc") ELSE Str(RightS(x[2], a[2][2]))) ELSE IF x[1] \in {"str", "fmt"} /\ IsNum(a[2]) THEN Sym ELSE Err("tm")
    [] f = "MID$" -> IF IsStr(x) /\ IsInt(a[2]) /\ IsInt(a[3]) THEN (IF a[2][2] < 1 \/ a[3][2] < 0 THEN Err("fc") ELSE Str(MidS(x[2], a[2][2], a[3][2])))
                     ELSE IF x[1] \in {"str", "fmt"} /\ IsNum(a[2]) /\ IsNum(a[3]) THEN Sym ELSE Err("tm")
    [] f = "TAB" -> IF IsInt(x) THEN <<"tab", x[2], 0>> ELSE Sym
    [] OTHER -> Sym
VarGetD(st, name, ty) == IF HasKey(st.env, name) THEN st.env[name] ELSE Default(ty)
\* touching an array element dimensions the array to 0..10 per subscript if it does not exist yet
AutoDim(st, name, rank) ==
  IF HasKey(st.arr, name) THEN st ELSE [st EXCEPT !.arr = Put(@, name, [dims |-> [k \in 1..rank |-> 10], cells |-> EmptyF])]
EvD(tr, st) ==
  CASE tr[1] = "num" -> <<Q(tr[2], tr[3]), st>>
    [] tr[1] = "big" -> <<IF tr[3] # <<>> THEN TextVal(tr[3]) ELSE Sym, st>>
    [] tr[1] = "str" -> <<Str(tr[2]), st>>
    [] tr[1] = "var" -> <<VarGetD(st, tr[2], tr[3]), st>>
    [] tr[1] = "par" -> EvD(tr[2], st)
    [] tr[1] = "idx" ->
         LET r == EvDArgs(tr[3], st, <<>>)  vals == r[1]  s1 == r[2] IN
         IF FirstBad(vals) # 0 THEN <<vals[FirstBad(vals)], s1>>
         ELSE IF ~IdxInts(vals) THEN <<Sym, s1>>
         ELSE LET s2 == AutoDim(s1, tr[2], Len(vals))  ix == IdxOf(vals) IN
              IF ~InRange(ix, s2.arr[tr[2]].dims) THEN <<Err("bs"), s2>>
              ELSE <<ArrGet(s2, tr[2], ix, tr[4]), s2>>
    [] tr[1] = "un" ->
         LET r == EvD(tr[3], st)  a == r[1] IN
         IF IsBad(a) THEN r
         ELSE IF tr[2] = "NOT" THEN <<IF IsNum(a) THEN LogicNot(a) ELSE Err("tm"), r[2]>>
         ELSE IF ~IsNum(a) THEN <<Err("tm"), r[2]>>
         ELSE IF tr[2] = "neg" THEN <<Neg(a), r[2]>> ELSE r
    [] tr[1] = "bin" ->
         LET l == EvD(tr[3], st)  r == EvD(tr[4], l[2])  op == tr[2] IN
         <<IF op \in {"+", "-", "*", "/", "^"} THEN DArith(op, l[1], r[1])
           ELSE IF IsRelOp(op) THEN DRel(op, l[1], r[1])
           ELSE DLogic(op, l[1], r[1]), r[2]>>
    [] tr[1] = "call" ->
         LET r == EvDArgs(tr[3], st, <<>>)  a == r[1]  s1 == r[2]  f == tr[2] IN
         IF \E k \in 1..Len(a) : IsErr(a[k]) THEN <<a[CHOOSE k \in 1..Len(a) : IsErr(a[k])], s1>>    \* an error stops the statement
         ELSE IF f \in DevFuns THEN
            (IF s1.dev = <<>> THEN <<Sym, [s1 EXCEPT !.status = "unjudged", !.why = "device-script-exhausted"]>>
             ELSE <<DevVal(f, s1.dev[1]), [s1 EXCEPT !.dev = Tail(@), !.calls = Append(@, <<f, a>>)]>>)
         ELSE IF f \in Convertible THEN
            <<IF FirstBad(a) # 0 THEN a[FirstBad(a)] ELSE FunVal(f, a), [s1 EXCEPT !.calls = Append(@, <<IF f = "STR$" THEN "FMT" ELSE f, a>>)]>>
         ELSE IF f = "FIX" THEN <<IF IsNum(a[1]) THEN Trunc(a[1]) ELSE a[1], s1>>
         ELSE <<PureFun(f, a), s1>>
    [] OTHER -> <<Err("tree"), st>>

(* ----------------------------- BASIC09 evaluation ----------------------------- *)
\* pure: the target text has no function with side effects (calls are RUN statements)
BArith(op, a, b) ==
  IF IsBad(a) \/ IsBad(b) THEN Worst(a, b)
  ELSE IF a[1] = "ref" \/ b[1] = "ref" THEN Sym
  ELSE IF op = "+" /\ IsStr(a) /\ IsStr(b) THEN Str(a[2] \o b[2])
  ELSE IF op = "+" /\ (a[1] \in {"str", "fmt"}) /\ (b[1] \in {"str", "fmt"}) THEN Sym
  ELSE IF ~IsNum(a) \/ ~IsNum(b) THEN Err("type")
  ELSE CASE op = "+" -> Add(a, b) [] op = "-" -> Sub(a, b) [] op = "*" -> Mul(a, b)
         [] op = "/" -> Div(a, b) [] op \in {"^", "**"} -> Pow(a, b) [] OTHER -> Err("op")
BRel(op, a, b) ==
  IF IsBad(a) \/ IsBad(b) THEN Worst(a, b)
  ELSE IF a[1] = "ref" \/ b[1] = "ref" THEN Sym
  ELSE IF IsNum(a) /\ IsNum(b) THEN Bool(Rel(op, a, b))
  ELSE IF IsStr(a) /\ IsStr(b) THEN Bool(StrRel(op, a[2], b[2]))
  ELSE IF a[1] \in {"str", "fmt"} /\ b[1] \in {"str", "fmt"} THEN Sym
  ELSE IF IsBool(a) /\ IsBool(b) /\ op \in {"=", "<>", "><"} THEN Bool((a[2] = b[2]) = (op = "="))
  ELSE Err("type")
BBool(op, a, b) ==
  IF IsBad(a) \/ IsBad(b) THEN Worst(a, b)
  ELSE IF ~IsBool(a) \/ ~IsBool(b) THEN Err("type")
  ELSE Bool(CASE op = "AND" -> a[2] = 1 /\ b[2] = 1 [] op = "OR" -> a[2] = 1 \/ b[2] = 1 [] OTHER -> a[2] # b[2])
VarGetB(st, name) ==
  IF name = "PLAY.OCTO" THEN Num(st.oct)
  ELSE IF name \in RuntimeRefs THEN Ref(name)
  ELSE IF HasKey(st.env, name) THEN st.env[name] ELSE UndefOf(name)
RECURSIVE EvB(_, _)
EvBArgs(args, st) == [k \in 1..Len(args) |-> EvB(args[k], st)]
EvB(tr, st) ==
  CASE tr[1] = "num" -> Q(tr[2], tr[3])
    [] tr[1] = "big" -> Sym
    [] tr[1] = "str" -> Str(tr[2])
    [] tr[1] = "var" -> VarGetB(st, tr[2])
    [] tr[1] = "par" -> EvB(tr[2], st)
    [] tr[1] = "idx" ->
         LET vals == EvBArgs(tr[3], st) IN
         IF FirstBad(vals) # 0 THEN vals[FirstBad(vals)]
         ELSE IF ~HasKey(st.arr, tr[2]) THEN Err("undeclared-array")
         ELSE IF \E k \in 1..Len(vals) : ~IsNum(vals[k]) THEN Err("type")
         ELSE IF ~IdxInts(vals) THEN Sym
         ELSE IF Len(vals) # Len(st.arr[tr[2]].dims) THEN Err("subscript-count")
         ELSE IF ~InRange(IdxOf(vals), st.arr[tr[2]].dims) THEN Err("subscript-range")
         ELSE IF HasKey(st.arr[tr[2]].cells, IdxOf(vals)) THEN st.arr[tr[2]].cells[IdxOf(vals)] ELSE UndefOf(tr[2])
    [] tr[1] = "un" ->
         LET a == EvB(tr[3], st) IN
         IF IsBad(a) THEN a
         ELSE IF tr[2] = "NOT" THEN (IF IsBool(a) THEN Bool(a[2] = 0) ELSE Err("type"))
         ELSE IF a[1] = "ref" THEN Sym
         ELSE IF ~IsNum(a) THEN Err("type")
         ELSE IF tr[2] = "neg" THEN Neg(a) ELSE a
    [] tr[1] = "bin" ->
         LET a == EvB(tr[3], st)  b == EvB(tr[4], st)  op == tr[2] IN
         IF op \in {"+", "-", "*", "/", "^", "**"} THEN BArith(op, a, b)
         ELSE IF IsRelOp(op) THEN BRel(op, a, b)
         ELSE BBool(op, a, b)
    [] tr[1] = "call" ->
         LET a == EvBArgs(tr[3], st)  f == tr[2] IN
         IF f = "TRUE" THEN Bool(TRUE) ELSE IF f = "FALSE" THEN Bool(FALSE)
         ELSE IF f = "ERR" THEN (IF HasKey(st.env, "ERR") THEN st.env["ERR"] ELSE Sym)     \* the code of the pending error
         ELSE IF f \in B09Fun0 THEN Sym
         ELSE IF FirstBad(a) # 0 THEN a[FirstBad(a)]
         ELSE IF \E k \in 1..Len(a) : IsBool(a[k]) THEN Err("type")
         ELSE IF f \in {"FLOAT", "FIX", "INT"} THEN
              (IF a[1][1] = "ref" THEN a[1] ELSE IF ~IsNum(a[1]) THEN Err("type") ELSE IF f = "FLOAT" \/ IsInt(a[1]) THEN a[1] ELSE Sym)
         ELSE IF \E k \in 1..Len(a) : a[k][1] = "ref" THEN Sym
         ELSE IF f \in {"LAND", "LOR", "LXOR"} THEN
              (IF ~IsNum(a[1]) \/ ~IsNum(a[2]) THEN Err("type") ELSE Logic(IF f = "LAND" THEN "AND" ELSE IF f = "LOR" THEN "OR" ELSE "XOR", a[1], a[2]))
         ELSE IF f = "LNOT" THEN (IF ~IsNum(a[1]) THEN Err("type") ELSE LogicNot(a[1]))
         ELSE IF f = "VAL" THEN (IF IsStr(a[1]) THEN TextVal(a[1][2]) ELSE IF a[1][1] = "fmt" THEN Sym ELSE Err("type"))
         ELSE IF f = "MOD" THEN (IF IsInt(a[1]) /\ IsInt(a[2]) /\ a[1][2] >= 0 /\ a[2][2] > 0 THEN Num(a[1][2] % a[2][2]) ELSE Sym)
         ELSE IF f \in {"ABS", "SGN", "SQR", "SQRT", "LEN", "ASC", "CHR$", "LEFT$", "RIGHT$", "MID$", "TAB"} THEN
              LET v == PureFun(f, a) IN IF IsErr(v) /\ v[2] = "tm" THEN Err("type") ELSE v
         ELSE Sym
    [] tr[1] = "bad" -> Err("parse")
    [] OTHER -> Err("tree")

(* ------------------------------ device statements ------------------------------ *)
\* source statement kind -> runtime procedure, parameter names carrying each source operand (in
\* the order module Decb lists the operands), value of an omitted operand, and constant parameters
HFore == Ref("DISPLAY.HFORE")
W(bytes) == Str(bytes)
DevSig(kind) ==
  CASE kind = "CLS" -> [proc |-> "ECB_CLS", roles |-> <<"COLOR">>, dflt |-> <<Num(1)>>, extra |-> <<<<"DISPLAY", Ref("DISPLAY")>>>>]
    [] kind = "PRINT@" -> [proc |-> "ECB_AT", roles |-> <<"LOCATION">>, dflt |-> <<Sym>>, extra |-> <<>>]
    [] kind = "LOCATE" -> [proc |-> "ECB_LOCATE", roles |-> <<"X", "Y">>, dflt |-> <<Sym, Sym>>, extra |-> <<>>]
    [] kind = "ATTR" -> [proc |-> "ECB_ATTR", roles |-> <<"F", "B", "BK", "UNDR">>, dflt |-> <<Sym, Sym, Sym, Sym>>, extra |-> <<<<"DISPLAY", Ref("DISPLAY")>>>>]
    [] kind = "WIDTH" -> [proc |-> "_ECB_WIDTH", roles |-> <<"WIDTH">>, dflt |-> <<Sym>>, extra |-> <<<<"DISPLAY", Ref("DISPLAY")>>>>]
    [] kind = "PALETTE" -> [proc |-> "ECB_SET_PALETTE", roles |-> <<"PR", "CC">>, dflt |-> <<Sym, Sym>>, extra |-> <<<<"DISPLAY", Ref("DISPLAY")>>>>]
    [] kind = "PALETTE-RGB" -> [proc |-> "ECB_SET_PALETTE_RGB", roles |-> <<>>, dflt |-> <<>>, extra |-> <<<<"DISPLAY", Ref("DISPLAY")>>>>]
    [] kind = "PALETTE-CMP" -> [proc |-> "ECB_SET_PALETTE_CMP", roles |-> <<>>, dflt |-> <<>>, extra |-> <<<<"DISPLAY", Ref("DISPLAY")>>>>]
    [] kind = "HSCREEN" -> [proc |-> "ECB_HSCREEN", roles |-> <<"N">>, dflt |-> <<Num(0)>>, extra |-> <<<<"DISPLAY", Ref("DISPLAY")>>>>]
    [] kind = "HCLS" -> [proc |-> "ECB_HCLS", roles |-> <<"N">>, dflt |-> <<Num(-1)>>, extra |-> <<<<"DISPLAY", Ref("DISPLAY")>>>>]
    [] kind = "HCOLOR" -> [proc |-> "ECB_HCOLOR", roles |-> <<"F", "B">>, dflt |-> <<Sym, Num(-1)>>, extra |-> <<<<"DISPLAY", Ref("DISPLAY")>>>>]
    [] kind = "HCIRCLE" -> [proc |-> "ECB_HCIRCLE", roles |-> <<"X", "Y", "R", "C", "RT">>, dflt |-> <<Sym, Sym, Sym, HFore, Num(1)>>, extra |-> <<<<"DISPLAY", Ref("DISPLAY")>>>>]
    [] kind = "HARC" -> [proc |-> "ECB_HARC", roles |-> <<"X", "Y", "R", "C", "RT", "SP", "EP">>, dflt |-> <<Sym, Sym, Sym, HFore, Num(1), Sym, Sym>>, extra |-> <<<<"DISPLAY", Ref("DISPLAY")>>>>]
    [] kind = "HLINE" -> [proc |-> "ECB_HLINE", roles |-> <<"X0", "Y0", "X1", "Y1", "M", "T">>, dflt |-> <<Sym, Sym, Sym, Sym, Sym, Sym>>,
                          extra |-> <<<<"RD", W(<<100>>)>>, <<"DISPLAY", Ref("DISPLAY")>>>>]
    [] kind = "HLINE-rel" -> [proc |-> "ECB_HLINE", roles |-> <<"X0", "Y0", "X1", "Y1", "M", "T">>, dflt |-> <<Num(0), Num(0), Sym, Sym, Sym, Sym>>,
                              extra |-> <<<<"RD", W(<<114>>)>>, <<"DISPLAY", Ref("DISPLAY")>>>>]
    [] kind = "HSET" -> [proc |-> "ECB_HSET", roles |-> <<"X", "Y">>, dflt |-> <<Sym, Sym>>, extra |-> <<<<"DISPLAY", Ref("DISPLAY")>>>>]
    [] kind = "HSET3" -> [proc |-> "ECB_HSET3", roles |-> <<"X", "Y", "C">>, dflt |-> <<Sym, Sym, Sym>>, extra |-> <<<<"DISPLAY", Ref("DISPLAY")>>>>]
    [] kind = "HRESET" -> [proc |-> "ECB_HRESET", roles |-> <<"X", "Y">>, dflt |-> <<Sym, Sym>>, extra |-> <<<<"DISPLAY", Ref("DISPLAY")>>>>]
    [] kind = "HPAINT" -> [proc |-> "ECB_HPAINT", roles |-> <<"X", "Y", "C", "C0">>, dflt |-> <<Sym, Sym, HFore, HFore>>, extra |-> <<<<"D", Ref("DISPLAY")>>>>]
    [] kind = "HPRINT" -> [proc |-> "ECB_HPRINT", roles |-> <<"X", "Y", "TXT">>, dflt |-> <<Sym, Sym, Sym>>, extra |-> <<<<"DISPLAY", Ref("DISPLAY")>>>>]
    [] kind = "HDRAW" -> [proc |-> "ECB_HDRAW", roles |-> <<"S">>, dflt |-> <<Sym>>, extra |-> <<<<"D", Ref("DISPLAY")>>>>]
    [] kind = "PLAY" -> [proc |-> "ECB_PLAY", roles |-> <<"S">>, dflt |-> <<Sym>>, extra |-> <<<<"P", Ref("PLAY")>>>>]
    [] kind = "HBUFF" -> [proc |-> "_ECB_HBUFF", roles |-> <<"B", "S">>, dflt |-> <<Sym, Sym>>, extra |-> <<<<"PID", Ref("PID")>>, <<"D", Ref("DISPLAY")>>>>]
    [] kind = "HGET" -> [proc |-> "ECB_HGET", roles |-> <<"X0", "Y0", "X1", "Y1", "B">>, dflt |-> <<Sym, Sym, Sym, Sym, Sym>>, extra |-> <<<<"P", Ref("PID")>>, <<"D", Ref("DISPLAY")>>>>]
    [] kind = "HPUT" -> [proc |-> "ECB_HPUT", roles |-> <<"X0", "Y0", "X1", "Y1", "B", "A">>, dflt |-> <<Sym, Sym, Sym, Sym, Sym, Sym>>, extra |-> <<<<"P", Ref("PID")>>, <<"D", Ref("DISPLAY")>>>>]
    [] kind = "SET" -> [proc |-> "ECB_SET", roles |-> <<"X", "Y", "C">>, dflt |-> <<Sym, Sym, Sym>>, extra |-> <<>>]
    [] kind = "RESET" -> [proc |-> "ECB_RESET", roles |-> <<"X", "Y">>, dflt |-> <<Sym, Sym>>, extra |-> <<>>]
    [] kind = "SOUND" -> [proc |-> "ECB_SOUND", roles |-> <<"F", "D">>, dflt |-> <<Sym, Sym>>, extra |-> <<<<"V", Num(31)>>, <<"O", <<"octave", 0, 0>>>>>>]
    [] OTHER -> [proc |-> "?", roles |-> <<>>, dflt |-> <<>>, extra |-> <<>>]
DevKinds == {"CLS", "PRINT@", "LOCATE", "ATTR", "WIDTH", "PALETTE", "PALETTE-RGB", "PALETTE-CMP", "HSCREEN", "HCLS", "HCOLOR", "HCIRCLE",
             "HARC", "HLINE", "HLINE-rel", "HSET", "HSET3", "HRESET", "HPAINT", "HPRINT", "HDRAW", "PLAY", "HBUFF", "HGET", "HPUT", "SET",
             "RESET", "SOUND"}
DevProcs == { DevSig(k).proc : k \in DevKinds }
\* all parameter names the specification binds for a procedure, in a fixed order: roles then extras
BoundNames(kind) == DevSig(kind).roles \o [k \in 1..Len(DevSig(kind).extra) |-> DevSig(kind).extra[k][1]]
KindsOf(proc) == { k \in DevKinds : DevSig(k).proc = proc }

\* position of parameter name p in the library's PARAM list for proc (0 if the library has no such name)
PosIn(seq, p) == LET c == { k \in 1..Len(seq) : seq[k] = p } IN IF c = {} THEN 0 ELSE CHOOSE k \in c : TRUE
LibParams(proc) == IF proc \in DOMAIN LibSigIn THEN LibSigIn[proc] ELSE <<>>

(* ------------------------------- the step ------------------------------- *)
IsUser(name) == name \notin TargetOnly
SameVal(old, new, ty) == VEq(IF old[1] = "undef" THEN Default(ty) ELSE old, new)

\* store value v into l-value tree lv (subscript values already computed)
StoreD(st, lv, idxvals, v, sk) ==
  IF lv[1] = "var" THEN
     LET old == VarGetD(st, lv[2], lv[3]) IN
     [st EXCEPT !.env = Put(@, lv[2], v),
                !.obs = IF SameVal(old, v, lv[3]) THEN @ ELSE Append(@, Ob("set", TargetName(lv[2], FALSE), <<>>, <<v>>, sk))]
  ELSE LET s2 == AutoDim(st, lv[2], Len(idxvals))  ix == IdxOf(idxvals) IN
       IF ~IdxInts(idxvals) THEN Stop(s2, "unjudged", "non-integer-subscript")
       ELSE IF ~InRange(ix, s2.arr[lv[2]].dims) THEN Stop(s2, "error", "bs")
       ELSE LET old == ArrGet(s2, lv[2], ix, lv[4]) IN
            [s2 EXCEPT !.arr[lv[2]].cells = Put(@, ix, v),
                       !.obs = IF SameVal(old, v, lv[4]) THEN @ ELSE Append(@, Ob("set", TargetName(lv[2], TRUE), ix, <<v>>, sk))]
\* the class a variable was declared with (DIM / PARAM with a type), else the implicit one of its name
DeclClass(st, name, ty) == IF HasKey(st.fl, "type:" \o name) THEN st.fl["type:" \o name] ELSE IF ty = "$" THEN "str" ELSE "num"
ClassOk(cls, v) == CASE cls = "str" -> v[1] \in {"str", "fmt", "sym"} [] cls = "bool" -> v[1] \in {"bool", "sym"} [] OTHER -> v[1] \in {"num", "sym", "ref"}
TypeOkB(ty, v) == IF ty = "$" THEN v[1] \in {"str", "fmt", "sym"} ELSE v[1] \in {"num", "sym", "ref"}
StrSize(st, name) == IF HasKey(st.fl, "size:" \o name) THEN st.fl["size:" \o name] ELSE 32
\* a string longer than the declared size is cut by BASIC09; the tool documents this limit, so such runs are not judged
TooLong(st, name, v) == ~st.cut /\ IsStr(v) /\ Len(v[2]) > StrSize(st, name)
Trunc2(st, name, v) == IF st.cut /\ IsStr(v) /\ Len(v[2]) > StrSize(st, name) THEN Str(Take(v[2], StrSize(st, name))) ELSE v
StoreB(st, lv, v0, sk) ==
  IF lv[1] = "var" THEN
     IF lv[2] = "PLAY.OCTO" THEN
        (IF IsInt(v0) THEN [st EXCEPT !.oct = v0[2], !.obs = IF v0[2] = st.oct THEN @ ELSE Append(@, Ob("dev", "OCTAVE", <<>>, <<v0>>, sk))] ELSE Stop(st, "error", "type"))
     ELSE IF ~ClassOk(DeclClass(st, lv[2], lv[3]), v0) THEN Stop(st, "error", "type:assignment")
     ELSE IF TooLong(st, lv[2], v0) THEN Stop(st, "unjudged", "string-exceeds-declared-size")
     ELSE LET v == Trunc2(st, lv[2], v0)
              old == IF HasKey(st.env, lv[2]) THEN st.env[lv[2]] ELSE UndefOf(lv[2]) IN
          [st EXCEPT !.env = Put(@, lv[2], v),
                     !.obs = IF ~IsUser(lv[2]) \/ SameVal(old, v, lv[3]) THEN @ ELSE Append(@, Ob("set", lv[2], <<>>, <<v>>, sk))]
  ELSE LET vals == EvBArgs(lv[3], st) IN
       IF FirstBad(vals) # 0 THEN
          (IF vals[FirstBad(vals)][1] = "undef" THEN [Stop(st, "undef", "subscript") EXCEPT !.rdundef = vals[FirstBad(vals)][2]]
           ELSE IF vals[FirstBad(vals)][1] = "sym" THEN Stop(st, "unjudged", "sym-subscript")
           ELSE Stop(st, "error", vals[FirstBad(vals)][2]))
       ELSE IF ~HasKey(st.arr, lv[2]) THEN Stop(st, "error", "undeclared-array")
       ELSE IF \E k \in 1..Len(vals) : ~IsNum(vals[k]) THEN Stop(st, "error", "type:subscript")
       ELSE IF ~IdxInts(vals) THEN Stop(st, "unjudged", "non-integer-subscript")
       ELSE IF Len(vals) # Len(st.arr[lv[2]].dims) THEN Stop(st, "error", "subscript-count")
       ELSE IF ~InRange(IdxOf(vals), st.arr[lv[2]].dims) THEN Stop(st, "error", "subscript-range")
       ELSE IF ~ClassOk(DeclClass(st, lv[2], lv[4]), v0) THEN Stop(st, "error", "type:assignment")
       ELSE IF TooLong(st, lv[2], v0) THEN Stop(st, "unjudged", "string-exceeds-declared-size")
       ELSE LET ix == IdxOf(vals)  v == Trunc2(st, lv[2], v0)
                old == IF HasKey(st.arr[lv[2]].cells, ix) THEN st.arr[lv[2]].cells[ix] ELSE UndefOf(lv[2]) IN
            [st EXCEPT !.arr[lv[2]].cells = Put(@, ix, v),
                       !.obs = IF SameVal(old, v, lv[4]) THEN @ ELSE Append(@, Ob("set", lv[2], ix, <<v>>, sk))]
LvTy(lv) == IF lv[1] = "var" THEN lv[3] ELSE lv[4]

\* a value that cannot be used: map to a machine status
BadStatus(st, v, lang, what) ==
  IF v[1] = "sym" THEN Stop(st, "unjudged", "sym:" \o what)
  ELSE IF v[1] = "undef" THEN [Stop(st, "undef", what) EXCEPT !.rdundef = v[2]]
  ELSE Stop(st, "error", v[2] \o ":" \o what)

\* ---- PRINT ----
OutOb(v, sk) == IF v[1] = "tab" THEN Ob("out", "tabto", <<>>, <<Num(v[2])>>, sk) ELSE Ob("out", "v", <<>>, <<v>>, sk)
\* what a numeric PRINT item looks like in the source (second half of a finding's key)
ItemKind(tr) == IF tr[1] \in {"bin", "un", "par"} THEN "operator-expression" ELSE tr[1]
RECURSIVE PrintD(_, _, _, _)
PrintD(items, k, st, sk) ==
  IF st.status # "run" THEN st
  ELSE IF k > Len(items) THEN
       (IF items # <<>> /\ items[Len(items)][1] = "sep" THEN st ELSE [st EXCEPT !.obs = Append(@, Ob("out", "nl", <<>>, <<>>, sk))])
  ELSE IF items[k][1] = "sep" THEN
       PrintD(items, k + 1, IF items[k][2] = "," THEN [st EXCEPT !.obs = Append(@, Ob("out", "tab", <<>>, <<>>, sk))] ELSE st, sk)
  ELSE LET r == EvD(items[k], st)  v == r[1]  s1 == r[2] IN
       IF s1.status # "run" THEN s1
       ELSE IF IsBad(v) THEN BadStatus(s1, v, "decb", "print")
       ELSE IF IsNum(v) THEN PrintD(items, k + 1, [s1 EXCEPT !.calls = Append(@, <<"FMT", <<v>>>>),
                                                               !.obs = Append(@, OutOb(Fmt(v), sk \o ":item=" \o ItemKind(items[k])))], sk)
       ELSE IF IsStr(v) /\ v[2] = <<>> THEN PrintD(items, k + 1, s1, sk)
       ELSE PrintD(items, k + 1, [s1 EXCEPT !.obs = Append(@, OutOb(v, sk))], sk)
PrintB(items, st, sk) ==
  LET r == FoldLeft(LAMBDA s, it :
             IF s.status # "run" THEN s
             ELSE IF it[1] = "sep" THEN (IF it[2] = "," THEN [s EXCEPT !.obs = Append(@, Ob("out", "tab", <<>>, <<>>, sk))] ELSE s)
             ELSE LET v == EvB(it, s) IN
                  IF IsBad(v) THEN BadStatus(s, v, "b09", "print")
                  ELSE IF IsBool(v) THEN Stop(s, "error", "type:print")
                  ELSE IF IsStr(v) /\ v[2] = <<>> THEN s
                  ELSE [s EXCEPT !.obs = Append(@, OutOb(v, sk))], st, items) IN
  IF r.status # "run" THEN r
  ELSE IF items # <<>> /\ items[Len(items)][1] = "sep" THEN r ELSE [r EXCEPT !.obs = Append(@, Ob("out", "nl", <<>>, <<>>, sk))]

\* ---- reading a text into a target (INPUT / READ) ----
TextFor(ty, bytes) == IF ty = "$" THEN Str(bytes) ELSE TextVal(bytes)
\* ---- RUN contracts (BASIC09 side): library procedures as the translator uses them ----
CallFun(proc) ==
  CASE proc = "ECB_INT" -> "INT" [] proc = "ECB_VAL" -> "VAL" [] proc = "ECB_STR" -> "STR$" [] proc = "ECB_HEX" -> "HEX$"
    [] proc = "ECB_INSTR" -> "INSTR" [] proc = "ECB_STRING" -> "STRING$" [] proc = "INKEY" -> "INKEY$"
    [] proc = "ECB_BUTTON" -> "BUTTON" [] proc = "ECB_JOYSTK" -> "JOYSTK" [] proc = "ECB_POINT" -> "POINT" [] OTHER -> ""
SilentProcs == {"_ECB_INPUT_PREFIX", "_ECB_INPUT_SUFFIX", "_ECB_START", "_ECB_INIT_HBUFF"}
RunB(st, ins) ==
  LET proc == ins.x  args == ins.a  n == Len(args)  nxt == [st EXCEPT !.pc = @ + 1] IN
  IF proc \in SilentProcs THEN nxt
  ELSE IF CallFun(proc) # "" THEN
     LET f == CallFun(proc) IN
     IF n = 0 THEN Stop(st, "error", "run-without-result-parameter")
     ELSE LET out == args[n]
              a == [k \in 1..(n - 1) |-> EvB(args[k], st)]
              \* the translator's convention: inputs first, the result variable last
              ain == IF f = "JOYSTK" /\ Len(a) >= 1 THEN <<a[1]>> ELSE a IN
          IF ~IsLValue(out) THEN Stop(st, "error", "result-parameter-not-a-variable")
          ELSE IF \E k \in 1..Len(a) : a[k][1] = "undef" THEN [Stop(st, "undef", "run-argument") EXCEPT !.rdundef = a[CHOOSE k \in 1..Len(a) : a[k][1] = "undef"][2]]
          ELSE IF f \in DevFuns THEN
               (IF st.dev = <<>> THEN Stop(st, "unjudged", "device-script-exhausted")
                ELSE LET v == DevVal(f, st.dev[1]) IN
                     StoreB([nxt EXCEPT !.dev = Tail(@), !.calls = Append(@, <<f, ain>>)], out, v, "RUN"))
          ELSE LET v == IF FirstBad(a) # 0 THEN a[FirstBad(a)]
                        ELSE IF f = "STR$" /\ a[1][1] = "fmt" THEN a[1] ELSE FunVal(f, a)
                   \* printing a number goes through the same formatter as STR$
                   fn == IF f = "STR$" THEN "FMT" ELSE f IN
               IF IsErr(v) THEN Stop(st, "error", v[2] \o ":" \o f)
               ELSE StoreB([nxt EXCEPT !.calls = Append(@, <<fn, a>>)], out, v, "RUN")
  ELSE IF proc = "ECB_READ_FILTER" THEN
     IF n # 2 \/ ~IsLValue(args[2]) THEN Stop(st, "error", "read-filter-arguments")
     ELSE LET v == EvB(args[1], st) IN
          IF IsBad(v) THEN BadStatus(st, v, "b09", "read-filter")
          ELSE IF ~IsStr(v) THEN Stop(st, "error", "type:read-filter")
          ELSE StoreB(nxt, args[2], TextVal(v[2]), "READ")
  ELSE IF proc \in DevProcs THEN
     LET a == [k \in 1..n |-> EvB(args[k], st)]
         lp == LibParams(proc)
         \* the kinds implemented by this procedure all bind the same names; take any
         kind == CHOOSE k \in KindsOf(proc) : TRUE
         names == BoundNames(kind)
         at(p, k) == LET q == PosIn(lp, p) IN IF q = 0 THEN k ELSE q       \* positional fallback
         vals == [k \in 1..Len(names) |-> IF at(names[k], k) <= n THEN a[at(names[k], k)] ELSE <<"missing", 0, 0>>] IN
     IF \E k \in 1..n : a[k][1] = "undef" THEN [Stop(st, "undef", "run-argument") EXCEPT !.rdundef = a[CHOOSE k \in 1..n : a[k][1] = "undef"][2]]
     ELSE IF \E k \in 1..n : IsErr(a[k]) THEN Stop(st, "error", "argument:" \o proc)
     ELSE [nxt EXCEPT !.obs = Append(@, Ob("dev", proc, <<n>>, vals, "RUN"))]
  ELSE Stop(st, "error", "run-unknown-procedure:" \o proc)

\* the same event on the source side
DevD(st, ins) ==
  LET sig == DevSig(ins.x)
      r == EvDArgs([k \in 1..Len(ins.a) |-> IF ins.a[k][1] \in {"omitted", "word"} THEN N4("num", 0, 1, "real") ELSE ins.a[k]], st, <<>>)
      s1 == r[2]
      vals == [k \in 1..Len(ins.a) |->
                 IF ins.a[k][1] = "omitted" THEN sig.dflt[k]
                 ELSE IF ins.a[k][1] = "word" THEN <<"word", ins.a[k][2], 0>>
                 ELSE IF ins.x = "HPRINT" /\ k = 3 /\ IsNum(r[1][k]) THEN Fmt(r[1][k])
                 ELSE r[1][k]]
      extras == [k \in 1..Len(sig.extra) |-> IF sig.extra[k][2][1] = "octave" THEN Num(s1.oct) ELSE sig.extra[k][2]]
      nparams == Len(LibParams(sig.proc)) IN
  IF s1.status # "run" THEN s1
  ELSE IF \E k \in 1..Len(vals) : IsErr(vals[k]) THEN Stop(s1, "error", "device-operand")
  ELSE [s1 EXCEPT !.pc = @ + 1,
                  !.calls = IF ins.x = "HPRINT" /\ IsNum(r[1][3]) THEN Append(@, <<"FMT", <<r[1][3]>>>>) ELSE @,
                  !.obs = Append(@, Ob("dev", sig.proc, <<IF nparams = 0 THEN Len(vals) + Len(extras) ELSE nparams>>, vals \o extras, ins.sk))]

DataItems(code) == FoldLeft(LAMBDA acc, ins : IF ins.op = "DATA" THEN acc \o ins.a ELSE acc, <<>>, code)

Goto(prog, st, line) == IF line \in DOMAIN prog.lab THEN [st EXCEPT !.pc = prog.lab[line]] ELSE Stop(st, "error", "undefined-line")

\* The FOR a NEXT belongs to in the text (a stack walk over the instructions before it; 0 if none).  The translator pairs
\* FOR and NEXT by the text; Color BASIC pairs them at run time.  The two agree for programs whose loops are entered at
\* their FOR (property C02: "lexically nested loops"); a run that reaches a NEXT whose run-time FOR is another one than
\* its textual FOR (a jump into a loop body) is outside that fragment and is left unjudged.
TextualFor(code, pc) ==
  LET stack == FoldLeft(LAMBDA stk, q : IF code[q].op = "FOR" THEN Append(stk, q)
                                        ELSE IF code[q].op = "NEXT" /\ stk # <<>> THEN SubSeq(stk, 1, Len(stk) - 1) ELSE stk,
                        <<>>, [q \in 1..(pc - 1) |-> q]) IN
  IF stack = <<>> THEN 0 ELSE stack[Len(stack)]
Step1(prog, lang, st0) ==
  LET st == [st0 EXCEPT !.steps = @ + 1]
      ins == prog.code[st.pc]
      nxt == [st EXCEPT !.pc = @ + 1]
      D == lang = "decb" IN
  CASE ins.op \in {"NOP", "REM", "DATA", "BASE", "TYPE", "PARAM", "PROC"} -> nxt
    [] ins.op = "DIM" ->
         IF D THEN
            FoldLeft(LAMBDA s, dc :
                IF s.status # "run" \/ dc[3] = <<>> THEN s
                ELSE IF HasKey(s.arr, dc[2]) THEN Stop(s, "error", "dd")
                ELSE [s EXCEPT !.arr = Put(@, dc[2], [dims |-> dc[3], cells |-> EmptyF])], nxt, ins.a)
         ELSE nxt            \* BASIC09 declarations are processed when the program is loaded (Load)
    [] ins.op = "ASSIGN" ->
         IF D THEN
            LET lv == ins.e2
                ri == IF lv[1] = "idx" THEN EvDArgs(lv[3], st, <<>>) ELSE <<<<>>, st>>
                rv == EvD(ins.e, ri[2])
                v == rv[1]  s1 == rv[2] IN
            IF s1.status # "run" THEN s1
            ELSE IF FirstBad(ri[1]) # 0 THEN BadStatus(s1, ri[1][FirstBad(ri[1])], lang, "subscript")
            ELSE IF IsBad(v) THEN BadStatus(s1, v, lang, "assignment")
            ELSE IF (LvTy(lv) = "$") # (v[1] \in {"str", "fmt"}) THEN Stop(s1, "error", "tm")
            ELSE LET s2 == StoreD(s1, lv, ri[1], v, ins.sk) IN IF s2.status = "run" THEN [s2 EXCEPT !.pc = @ + 1] ELSE s2
         ELSE
            LET v == EvB(ins.e, st) IN
            IF v[1] = "undef" THEN [Stop(st, "undef", "assignment") EXCEPT !.rdundef = v[2]]
            ELSE IF v[1] = "err" THEN Stop(st, "error", v[2] \o ":assignment")
            ELSE IF IsBool(v) /\ DeclClass(st, ins.e2[2], "") # "bool" THEN Stop(st, "error", "type:assignment")
            ELSE StoreB(nxt, ins.e2, v, "LET")
    [] ins.op = "JF" ->
         IF D THEN
            LET r == EvD(ins.e, st)  v == r[1]  s1 == r[2] IN
            IF s1.status # "run" THEN s1
            ELSE IF IsBad(v) THEN BadStatus(s1, v, lang, "condition")
            ELSE IF ~IsNum(v) THEN Stop(s1, "error", "tm")
            ELSE IF v[2] # 0 THEN [s1 EXCEPT !.pc = @ + 1] ELSE [s1 EXCEPT !.pc = ins.n]
         ELSE
            LET v == EvB(ins.e, st) IN
            IF IsBad(v) THEN BadStatus(st, v, lang, "condition")
            ELSE IF ~IsBool(v) THEN Stop(st, "error", "type:condition-not-boolean")
            \* UNTIL leaves the loop when its condition is true: "JF back" jumps when false
            ELSE IF v[2] = 1 THEN nxt ELSE [st EXCEPT !.pc = ins.n]
    [] ins.op = "IFGOTO" ->
         LET v == EvB(ins.e, st) IN
         IF IsBad(v) THEN BadStatus(st, v, lang, "condition")
         ELSE IF ~IsBool(v) THEN Stop(st, "error", "type:condition-not-boolean")
         ELSE IF v[2] = 0 THEN nxt ELSE Goto(prog, st, ins.n)
    [] ins.op = "JMP" -> [st EXCEPT !.pc = ins.n]
    [] ins.op = "GOTO" -> Goto(prog, st, ins.n)
    [] ins.op = "GOSUB" -> Goto(prog, [st EXCEPT !.gs = Append(@, [ret |-> st.pc + 1, fsd |-> Len(st.fs)])], ins.n)
    [] ins.op = "RETURN" ->
         IF st.gs = <<>> THEN Stop(st, "error", "return-without-gosub")
         ELSE LET f == st.gs[Len(st.gs)] IN
              [st EXCEPT !.pc = f.ret, !.gs = SubSeq(@, 1, Len(@) - 1), !.fs = SubSeq(@, 1, Min2(Len(@), f.fsd))]
    [] ins.op = "ONGO" ->
         LET r == IF D THEN EvD(ins.e, st) ELSE <<EvB(ins.e, st), st>>
             v == r[1]  s1 == r[2] IN
         IF s1.status # "run" THEN s1
         ELSE IF IsBad(v) THEN BadStatus(s1, v, lang, "on-selector")
         ELSE IF ~IsNum(v) THEN Stop(s1, "error", "type:on-selector")
         ELSE IF ~IsInt(v) THEN (IF D /\ Floor(v)[2] >= 1 /\ Floor(v)[2] <= Len(ins.a) THEN Stop(s1, "unjudged", "on-selector-fraction") ELSE Stop(s1, "unjudged", "on-selector-fraction"))
         ELSE IF v[2] >= 1 /\ v[2] <= Len(ins.a) THEN
              Goto(prog, IF ins.x = "GOSUB" THEN [s1 EXCEPT !.gs = Append(@, [ret |-> st.pc + 1, fsd |-> Len(st.fs)])] ELSE s1, ins.a[v[2]])
         ELSE IF D THEN (IF v[2] < 0 \/ v[2] > 255 THEN Stop(s1, "error", "fc") ELSE [s1 EXCEPT !.pc = @ + 1])
         ELSE Stop(s1, "unjudged", "on-selector-out-of-range")
    [] ins.op = "FOR" ->
         IF D THEN
            LET ra == EvD(ins.e, st)
                sA == IF IsNum(ra[1]) THEN StoreD(ra[2], N4("var", ins.x, "", ""), <<>>, ra[1], ins.sk) ELSE ra[2]
                rb == EvD(ins.e2, sA)
                rs == EvD(ins.e3, rb[2])
                s1 == rs[2] IN
            IF s1.status # "run" THEN s1
            ELSE IF ~IsNum(ra[1]) THEN BadStatus(s1, IF IsBad(ra[1]) THEN ra[1] ELSE Err("tm"), lang, "for")
            ELSE IF ~IsNum(rb[1]) THEN BadStatus(s1, IF IsBad(rb[1]) THEN rb[1] ELSE Err("tm"), lang, "for")
            ELSE IF ~IsNum(rs[1]) THEN BadStatus(s1, IF IsBad(rs[1]) THEN rs[1] ELSE Err("tm"), lang, "for")
            ELSE LET same == { k \in 1..Len(s1.fs) : s1.fs[k].v = ins.x }
                     base == IF same = {} THEN s1.fs ELSE SubSeq(s1.fs, 1, (CHOOSE k \in same : \A j \in same : k <= j) - 1) IN
                 [s1 EXCEPT !.pc = @ + 1, !.fs = Append(base, [v |-> ins.x, lim |-> rb[1], stp |-> rs[1], body |-> st.pc + 1])]
         ELSE
            LET a == EvB(ins.e, st)  b == EvB(ins.e2, st)  s == EvB(ins.e3, st) IN
            IF IsBad(a) THEN BadStatus(st, a, lang, "for") ELSE IF IsBad(b) THEN BadStatus(st, b, lang, "for")
            ELSE IF IsBad(s) THEN BadStatus(st, s, lang, "for")
            ELSE IF ~IsNum(a) \/ ~IsNum(b) \/ ~IsNum(s) THEN Stop(st, "error", "type:for")
            ELSE LET s1 == StoreB(nxt, N4("var", ins.x, "", ""), a, "FOR") IN
                 IF s1.status # "run" THEN s1
                 ELSE IF (s[2] >= 0 /\ Lt(b, a)) \/ (s[2] < 0 /\ Lt(a, b)) THEN
                      (IF st.ztp = "top" THEN [s1 EXCEPT !.pc = ins.n + 1]
                       ELSE IF st.ztp = "bottom" THEN [s1 EXCEPT !.fl = Put(@, ToString(st.pc), [lim |-> b, stp |-> s])]
                       ELSE Stop(s1, "unjudged", "for-zero-trip"))
                 ELSE [s1 EXCEPT !.fl = Put(@, ToString(st.pc), [lim |-> b, stp |-> s])]
    [] ins.op = "NEXT" ->
         IF D THEN
            IF st.fs = <<>> THEN Stop(st, "error", "nf")
            ELSE LET c == { k \in 1..Len(st.fs) : ins.x = "" \/ st.fs[k].v = ins.x }
                     k == IF c = {} THEN 0 ELSE CHOOSE q \in c : \A j \in c : j <= q IN
                 IF k = 0 THEN Stop(st, "error", "nf")
                 ELSE LET f == st.fs[k]
                          cur == VarGetD(st, f.v, "")
                          v2 == Add(cur, f.stp)
                          tf == TextualFor(prog.code, st.pc) IN
                      IF tf # 0 /\ tf # f.body - 1 THEN Stop(st, "unjudged", "next-reached-by-a-jump-into-another-loop")
                      ELSE IF ~IsNum(cur) \/ ~IsNum(v2) THEN Stop(st, "unjudged", "sym:next")
                      ELSE LET cont == IF f.stp[2] >= 0 THEN ~Lt(f.lim, v2) ELSE ~Lt(v2, f.lim)
                               s1 == StoreD(st, N4("var", f.v, "", ""), <<>>, v2, IF cont THEN "NEXT" ELSE "NEXT-exit") IN
                           IF cont THEN [s1 EXCEPT !.pc = f.body, !.fs = SubSeq(@, 1, k)]
                           ELSE [s1 EXCEPT !.pc = @ + 1, !.fs = SubSeq(@, 1, k - 1)]
         ELSE
            LET key == ToString(ins.n) IN
            IF ~HasKey(st.fl, key) THEN Stop(st, "error", "next-without-for")
            ELSE LET f == st.fl[key]
                     cur == VarGetB(st, ins.x)
                     v2 == IF IsNum(cur) THEN Add(cur, f.stp) ELSE cur IN
                 IF ~IsNum(v2) THEN BadStatus(st, IF IsBad(v2) THEN v2 ELSE Err("type"), lang, "next")
                 ELSE LET cont == IF f.stp[2] >= 0 THEN ~Lt(f.lim, v2) ELSE ~Lt(v2, f.lim)
                          s1 == StoreB(st, N4("var", ins.x, "", ""), v2, IF cont THEN "NEXT" ELSE "NEXT-exit") IN
                      IF s1.status # "run" THEN s1
                      ELSE IF cont THEN [s1 EXCEPT !.pc = ins.n + 1] ELSE [s1 EXCEPT !.pc = @ + 1]
    [] ins.op = "PRINT" ->
         LET s1 == IF D THEN PrintD(ins.a, 1, st, ins.sk) ELSE PrintB(ins.a, st, "PRINT") IN
         IF s1.status = "run" THEN [s1 EXCEPT !.pc = @ + 1] ELSE s1
    [] ins.op = "INPUT" ->
         LET prompt == IF ins.e[1] = "str" THEN ins.e[2] ELSE <<>>
             shown == IF D THEN (IF ins.x = "LINE" THEN prompt ELSE prompt \o <<63, 32>>)
                      ELSE (IF ins.e[1] = "str" THEN prompt ELSE <<63, 32>>)
             s0 == [st EXCEPT !.obs = Append(@, Ob("input", "", <<>>, <<Str(shown)>>, ins.sk))] IN
         LET r == FoldLeft(LAMBDA s, lv :
                    IF s.status # "run" THEN s
                    ELSE IF s.inp = <<>> THEN Stop(s, "unjudged", "input-script-exhausted")
                    ELSE LET txt == s.inp[1]
                             v == TextFor(LvTy(lv), txt)
                             s1 == [s EXCEPT !.inp = Tail(@)] IN
                         IF IsSym(v) THEN Stop(s1, "unjudged", "sym:input-text")
                         ELSE IF D THEN
                              LET ri == IF lv[1] = "idx" THEN EvDArgs(lv[3], s1, <<>>) ELSE <<<<>>, s1>> IN
                              IF FirstBad(ri[1]) # 0 THEN BadStatus(ri[2], ri[1][FirstBad(ri[1])], lang, "subscript")
                              ELSE StoreD(ri[2], lv, ri[1], v, ins.sk)
                         ELSE StoreB(s1, lv, v, "INPUT"), s0, ins.a) IN
         IF r.status = "run" THEN [r EXCEPT !.pc = @ + 1] ELSE r
    [] ins.op = "READ" ->
         LET r == FoldLeft(LAMBDA s, lv :
                    IF s.status # "run" THEN s
                    ELSE IF s.dp > Len(prog.data) THEN Stop(s, "error", "out-of-data")
                    ELSE LET it == prog.data[s.dp]
                             s1 == [s EXCEPT !.dp = @ + 1] IN
                         IF D THEN
                            LET v == IF it[1] = "dstr" THEN (IF LvTy(lv) = "$" THEN Str(it[2]) ELSE Err("sn"))
                                     ELSE TextFor(LvTy(lv), IF LvTy(lv) = "$" THEN it[2] ELSE it[2])
                                ri == IF lv[1] = "idx" THEN EvDArgs(lv[3], s1, <<>>) ELSE <<<<>>, s1>> IN
                            IF FirstBad(ri[1]) # 0 THEN BadStatus(ri[2], ri[1][FirstBad(ri[1])], lang, "subscript")
                            ELSE IF IsBad(v) THEN BadStatus(ri[2], v, lang, "read")
                            ELSE StoreD(ri[2], lv, ri[1], v, ins.sk)
                         ELSE
                            LET v == EvB(it, s1) IN
                            IF IsBad(v) THEN BadStatus(s1, v, lang, "read")
                            ELSE IF IsStr(v) /\ LvTy(lv) # "$" THEN Stop(s1, "error", "type:string-item-read-into-numeric-variable")
                            ELSE IF ~TypeOkB(LvTy(lv), v) THEN Stop(s1, "unjudged", "read-type-mismatch")
                            ELSE StoreB(s1, lv, v, "READ"), st, ins.a) IN
         IF r.status = "run" THEN [r EXCEPT !.pc = @ + 1] ELSE r
    [] ins.op = "RESTORE" -> [nxt EXCEPT !.dp = 1]
    [] ins.op = "RUN" -> RunB(st, ins)
    [] ins.op = "DEV" ->
         IF ins.x = "POKE" THEN
            LET adr == IF ins.a[1][1] = "par" THEN ins.a[1][2] ELSE ins.a[1]
                r == EvDArgs(ins.a, st, <<>>)  s1 == r[2] IN
            IF s1.status # "run" THEN s1
            ELSE IF adr[1] = "num" /\ adr[3] = 1 /\ adr[2] \in {65496, 65497} THEN
                 [s1 EXCEPT !.pc = @ + 1, !.oct = adr[2] - 65496,
                             !.obs = IF adr[2] - 65496 = s1.oct THEN @ ELSE Append(@, Ob("dev", "OCTAVE", <<>>, <<Num(adr[2] - 65496)>>, ins.sk))]
            ELSE IF IsErr(r[1][1]) \/ IsErr(r[1][2]) THEN Stop(s1, "error", "poke")
            ELSE [s1 EXCEPT !.pc = @ + 1, !.obs = Append(@, Ob("dev", "POKE", <<>>, r[1], ins.sk))]
         ELSE DevD(st, ins)
    [] ins.op = "POKE" ->
         LET a == EvB(ins.e, st)  b == EvB(ins.e2, st) IN
         IF a[1] = "undef" \/ b[1] = "undef" THEN [Stop(st, "undef", "poke") EXCEPT !.rdundef = IF a[1] = "undef" THEN a[2] ELSE b[2]]
         ELSE IF IsErr(a) \/ IsErr(b) THEN Stop(st, "error", "poke")
         ELSE [nxt EXCEPT !.obs = Append(@, Ob("dev", "POKE", <<>>, <<a, b>>, "POKE"))]
    [] ins.op \in {"ONERR", "ONBRK"} -> IF ins.op = "ONERR" THEN [nxt EXCEPT !.onerr = ins.n] ELSE [nxt EXCEPT !.onbrk = ins.n]
    [] ins.op \in {"HALT", "END", "STOP"} -> [st EXCEPT !.status = "halt", !.obs = Append(@, Ob("halt", "", <<>>, <<>>, ins.op))]
    [] ins.op \in {"TRON", "TROFF", "DEG", "RAD"} -> nxt
    [] ins.op = "ERROR" -> Stop(st, "error", "ERROR-statement")
    [] ins.op = "IO" -> Stop(st, "unjudged", "io-statement")
    [] ins.op = "BAD" -> Stop(st, "error", "parse:" \o ins.x)
    [] OTHER -> Stop(st, "error", "unknown-instruction:" \o ins.op)

\* one step; a state that stops remembers the instruction it stopped at (epc)
Step(prog, lang, st0) ==
  IF st0.status # "run" THEN st0
  ELSE IF st0.pc > Len(prog.code) THEN [st0 EXCEPT !.status = "halt", !.obs = Append(@, Ob("halt", "", <<>>, <<>>, "end-of-text"))]
  ELSE LET r == Step1(prog, lang, st0) IN IF r.status = "run" THEN r ELSE [r EXCEPT !.epc = st0.pc]

\* BASIC09 declarations take effect before the first statement runs
Load(code, st) ==
  FoldLeft(LAMBDA s, ins :
     IF ins.op # "DIM" THEN s
     ELSE FoldLeft(LAMBDA s2, dc :
            LET s3 == IF dc[3] # <<>> /\ ~HasKey(s2.arr, dc[2])
                      THEN [s2 EXCEPT !.arr = Put(@, dc[2], [dims |-> [k \in 1..Len(dc[3]) |-> dc[3][k] - 1], cells |-> EmptyF])] ELSE s2 IN
            LET s4 == IF dc[4][1] = "STRING" THEN [s3 EXCEPT !.fl = Put(@, "size:" \o dc[2], dc[4][2])] ELSE s3 IN
            IF dc[4][1] = "" THEN s4
            ELSE [s4 EXCEPT !.fl = Put(@, "type:" \o dc[2], IF dc[4][1] = "STRING" THEN "str" ELSE IF dc[4][1] = "BOOLEAN" THEN "bool" ELSE "num")], s, ins.a), st, code)

Run(prog, lang, st, fuel) == FoldLeft(LAMBDA s, i : Step(prog, lang, s), st, [i \in 1..fuel |-> i])
=============================================================================
