---------------------------- MODULE Validate_C12 ----------------------------
(* (V) trace validation for C12: Traces[i] = [seed, calls, results]; Canon[c] is the reference result *)
EXTENDS Integers, Sequences, TLC, Json, IOUtils
Data == JsonDeserialize(IOEnv.CASES)      \* [canon |-> <<h1, h2, ...>>, traces |-> <<[seed, calls, results], ...>>]
Canon == Data.canon
Traces == Data.traces
\* a trace is a behaviour of the stateless specification iff every step returns the canonical value
FirstBad(tr) == LET c == { k \in 1..Len(tr.calls) : tr.results[k] # Canon[tr.calls[k]] } IN
                IF c = {} THEN 0 ELSE CHOOSE k \in c : \A j \in c : k <= j
Verdict(tr) ==
  LET k == FirstBad(tr) IN
  IF k = 0 THEN [ok |-> TRUE, clause |-> "ok", key |-> "", detail |-> ""]
  ELSE [ok |-> FALSE, clause |-> "nondeterministic",
        key |-> "nondeterministic:" \o Data.kinds[tr.calls[k]] \o (IF k = 1 THEN ":first-call-of-a-process-differs-from-reference" ELSE ":result-depends-on-earlier-calls"),
        detail |-> "seed " \o ToString(tr.seed) \o " step " \o ToString(k) \o " call " \o ToString(tr.calls[k])]
VARIABLES ci, vd
Init == ci \in 1..Len(Traces) /\ vd = [clause |-> "todo"]
Next == vd.clause = "todo" /\ vd' = Verdict(Traces[ci]) /\ UNCHANGED ci
=============================================================================
