----------------------------- MODULE MC_B09Expr -----------------------------
(***************************************************************************)
(* Oracle sanity for the BASIC09 expression grammar of module B09: for     *)
(* every operator tree up to a depth bound, printing the tree with the     *)
(* minimal parentheses BASIC09's precedence and left associativity require *)
(* and parsing the tokens again gives the same tree.  The trees are the    *)
(* reachable states of a small builder machine (two registers: build a     *)
(* leaf, apply a unary operator, combine the registers with a binary one). *)
(***************************************************************************)
EXTENDS B09
CONSTANTS MaxDepth
VARIABLES t1, t2
Leaves == { N4("var", "A", "", ""), N4("num", 2, 1, "real") }
UnOps == {"neg", "NOT"}
BinOps == {"+", "-", "*", "/", "^", "=", "<", "AND", "OR"}
RECURSIVE Depth(_)
Depth(tr) == CASE tr[1] = "un" -> 1 + Depth(tr[3]) [] tr[1] = "bin" -> 1 + (IF Depth(tr[3]) > Depth(tr[4]) THEN Depth(tr[3]) ELSE Depth(tr[4])) [] OTHER -> 0
Init == t1 \in Leaves /\ t2 \in Leaves
Next == \/ \E l \in Leaves : t1' = l /\ UNCHANGED t2
        \/ \E o \in UnOps : Depth(t1) < MaxDepth /\ t1' = N4("un", o, t1, "") /\ UNCHANGED t2
        \/ \E o \in BinOps : Depth(t1) < MaxDepth /\ Depth(t2) < MaxDepth /\ t1' = N4("bin", o, t1, t2) /\ UNCHANGED t2
        \/ t1' = t2 /\ t2' = t1
Spec == Init /\ [][Next]_<<t1, t2>>

Tk(k, v) == [k |-> k, v |-> v, n |-> 0, d |-> 1, s |-> <<>>]
PrecOf(tr) == CASE tr[1] = "bin" -> BPrec(tr[2]) [] tr[1] = "un" -> 7 [] OTHER -> 9
RECURSIVE Unparse(_, _, _)
\* minp: binding strength the context demands; right: is this the right operand of an operator of strength minp
Unparse(tr, minp, right) ==
  LET body == CASE tr[1] = "var" -> << [Tk("id", tr[2]) EXCEPT !.s = <<65>>] >>
                [] tr[1] = "num" -> << [Tk("real", "2.0") EXCEPT !.n = tr[2], !.d = tr[3]] >>
                [] tr[1] = "un" -> << IF tr[2] = "neg" THEN Tk("op", "-") ELSE Tk("id", "NOT") >> \o Unparse(tr[3], 7, FALSE)
                [] OTHER -> Unparse(tr[3], BPrec(tr[2]), FALSE) \o << IF tr[2] \in {"AND", "OR"} THEN Tk("id", tr[2]) ELSE Tk("op", tr[2]) >> \o Unparse(tr[4], BPrec(tr[2]), TRUE)
      need == PrecOf(tr) < minp \/ (right /\ PrecOf(tr) = minp) \/ (tr[1] = "un" /\ minp = 7 /\ FALSE) IN
  IF need THEN << Tk("op", "(") >> \o body \o << Tk("op", ")") >> ELSE body
RECURSIVE StripPar(_)
StripPar(tr) == CASE tr[1] = "par" -> StripPar(tr[2]) [] tr[1] = "un" -> N4("un", tr[2], StripPar(tr[3]), "")
                  [] tr[1] = "bin" -> N4("bin", tr[2], StripPar(tr[3]), StripPar(tr[4])) [] OTHER -> tr

RoundTrip == LET toks == Unparse(t1, 0, FALSE)  p == BExp(toks, 1, 1) IN
             p[1] /\ p[3] = Len(toks) + 1 /\ StripPar(p[2]) = t1
=============================================================================
