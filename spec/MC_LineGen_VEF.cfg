CONSTANTS
  Format = "VEF"
  W = 6
  NLines = 2
  VefType = 0
  Kinds = {"const", "halves", "noise", "same", "poke", "stripes"}
  PalSet = {0}
  Vals = {1, 7}
  Strategies = {"literal", "runs", "split-runs", "mixed", "overshoot"}
  Pages = {1}
  Motifs = {FALSE}
SPECIFICATION Spec
INVARIANT RoundTrip
INVARIANT Complete
CHECK_DEADLOCK FALSE
