----------------------------- MODULE Trace_C09 -----------------------------
(* C09 trace validation: the identifiers of the emitted text (minus BASIC09 *)
(* reserved words, procedure names and the identifiers the translator       *)
(* generates itself) must be exactly the images of the source variables     *)
(* under Names!Target -- so two source names share an identifier iff Color  *)
(* BASIC treats them as one variable, in whatever position they occur.      *)
EXTENDS Machine
N == INSTANCE Names WITH NmLetters <- {}, NmDigits <- {}, MaxLen <- 0, n1 <- <<>>, n2 <- <<>>, a1 <- FALSE, a2 <- FALSE
Cases == JsonDeserialize(IOEnv.CASES)

SkipAfter == {"RUN", "PROCEDURE"}
\* (a reserved word counts as a user identifier when it is the image of a source variable: that clash with
\* the target language is property C07's finding, not an identity problem)
UserIdsOfLine(t, want) ==
  { t[k].s : k \in { j \in 1..Len(t) : /\ t[j].k = "id" /\ (t[j].v \notin B09Reserved \/ t[j].s \in want) /\ t[j].v \notin TargetOnly
                                        /\ ~(j > 1 /\ t[j - 1].k = "id" /\ t[j - 1].v \in SkipAfter) } }
UserIds(lines, want) == UNION { UserIdsOfLine(lines[i], want) : i \in 1..Len(lines) }
Expected(vars) == { N!Target(N!UpperS(vars[k].name), vars[k].arr) : k \in 1..Len(vars) }
V9(ok, clause, key, detail) == [ok |-> ok, clause |-> clause, key |-> key, detail |-> detail]
Verdict(cs) ==
  LET want == Expected(cs.vars)  got == UserIds(cs.out, want) IN
  IF want \ got # {} THEN V9(FALSE, "identity", "identity:expected-identifier-missing", ToString(CHOOSE x \in want \ got : TRUE))
  ELSE IF got \ want # {} THEN V9(FALSE, "identity", "identity:unexpected-identifier", ToString(CHOOSE x \in got \ want : TRUE))
  ELSE V9(TRUE, "ok", "", "")
VARIABLES ci, vd
Init == ci \in 1..Len(Cases) /\ vd = [clause |-> "todo"]
Next == vd.clause = "todo" /\ vd' = Verdict(Cases[ci]) /\ UNCHANGED ci
=============================================================================
