----------------------------- MODULE Trace_C09 -----------------------------
(* C09 trace validation: the identifiers of the emitted text (minus BASIC09 *)
(* reserved words, procedure names and the identifiers the translator       *)
(* generates itself) must be exactly the images of the source variables     *)
(* under Names!Target -- so two source names share an identifier iff Color  *)
(* BASIC treats them as one variable, in whatever position they occur.      *)
EXTENDS Machine
N == INSTANCE Names WITH NmLetters <- {}, NmDigits <- {}, MaxLen <- 0, n1 <- <<>>, n2 <- <<>>, a1 <- FALSE, a2 <- FALSE
Cases == JsonDeserialize(IOEnv.CASES)

SkipAfter == {"RUN", "PROCEDURE"}
\* (a reserved word counts as a user identifier when it is the image of a source variable: that clash with
\* the target language is property C07's finding, not an identity problem)
UserIdsOfLine(t, want) ==
  { t[k].s : k \in { j \in 1..Len(t) : /\ t[j].k = "id" /\ (t[j].v \notin B09Reserved \/ t[j].s \in want) /\ t[j].v \notin TargetOnly
                                        /\ ~(j > 1 /\ t[j - 1].k = "id" /\ t[j - 1].v \in SkipAfter) } }
UserIds(lines, want) == UNION { UserIdsOfLine(lines[i], want) : i \in 1..Len(lines) }
Expected(vars) == { N!Target(N!UpperS(vars[k].name), vars[k].arr) : k \in 1..Len(vars) }
V9(ok, clause, key, detail) == [ok |-> ok, clause |-> clause, key |-> key, detail |-> detail]
Verdict(cs) ==
  LET want == Expected(cs.vars)  got == UserIds(cs.out, want) IN
  IF want \ got # {} THEN V9(FALSE, "identity", "identity:expected-identifier-missing", ToString(CHOOSE x \in want \ got : TRUE))
  ELSE IF got \ want # {} THEN V9(FALSE, "identity", "identity:unexpected-identifier", ToString(CHOOSE x \in got \ want : TRUE))
  ELSE V9(TRUE, "ok", "", "")
\* A keyword-shaped name (ERNO, TOX, ..): the grammar may refuse it, or read it as something that is not a variable
\* (the function ERNO); but it must do so in every position.  cs.uses : the accepted positions of one name, each
\* [vars (the name first, then the other variables of the position), alt (the variables Color BASIC's own
\* tokeniser finds in the statement: CLSX=1 is CLS X=1), out].
VerdictGroup(cs) ==
  LET img(k) == N!Target(N!UpperS(cs.uses[k].vars[1].name), cs.uses[k].vars[1].arr)
      has == { k \in 1..Len(cs.uses) : img(k) \in UserIds(cs.uses[k].out, {img(k)}) }
      hasnot == (1..Len(cs.uses)) \ has
      bad == { k \in has : Verdict(cs.uses[k]).ok = FALSE }
      \* not a variable for the tool: the identifiers are those of the position and of the statement as Color BASIC reads it (alt)
      extra(k) == UserIds(cs.uses[k].out, {}) \ (Expected(Tail(cs.uses[k].vars)) \cup Expected(cs.uses[k].alt)) IN
  IF has # {} /\ hasnot # {} THEN V9(FALSE, "identity", "identity:name-is-a-variable-in-one-position-and-something-else-in-another",
                                      ToString(<<CHOOSE k \in has : TRUE, CHOOSE k \in hasnot : TRUE>>))
  ELSE IF bad # {} THEN Verdict(cs.uses[CHOOSE k \in bad : TRUE])
  ELSE IF \E k \in hasnot : extra(k) # {} THEN V9(FALSE, "identity", "identity:unexpected-identifier", ToString(extra(CHOOSE k \in hasnot : extra(k) # {})))
  ELSE V9(TRUE, "ok", "", ToString(<<Cardinality(has), Cardinality(hasnot)>>))
VARIABLES ci, vd
Init == ci \in 1..Len(Cases) /\ vd = [clause |-> "todo"]
Next == vd.clause = "todo" /\ vd' = (IF "uses" \in DOMAIN Cases[ci] THEN VerdictGroup(Cases[ci]) ELSE Verdict(Cases[ci])) /\ UNCHANGED ci
=============================================================================
