------------------------------- MODULE Layout -------------------------------
(***************************************************************************)
(* C08: source layout does not change the translation.  A program is a     *)
(* sequence of layout tokens (numeric and hex literals are split where the *)
(* documentation allows blanks inside them); a layout gives every boundary *)
(* between two tokens 0..2 blanks -- at least Min[i], which is 1 exactly   *)
(* where both neighbours are alphanumeric -- and chooses a line-end style, *)
(* a kind of blank line between program lines, a trailing NUL and the      *)
(* spelling of PRINT.  The machine below enumerates the layout space the   *)
(* check explores: the uniform layouts and every layout that deviates from *)
(* a uniform one at up to MaxDev boundaries, times the global choices.     *)
(* Trace validation (below, Verdict): all layouts of one abstract program  *)
(* are refused, or all are accepted with byte-identical output.            *)
(***************************************************************************)
EXTENDS Integers, Sequences, FiniteSets, TLC, Json, IOUtils
CONSTANTS N, MaxDev
VARIABLES base, dev, style
vars == <<base, dev, style>>
Plain == [le |-> "LF", blank |-> "none", nul |-> 0, q |-> 0]
AllStyles == [le : {"LF", "CR", "CRLF"}, blank : {"none", "empty", "blanks"}, nul : {0, 1}, q : {0, 1}]
\* one global choice at a time (so that a disagreement is attributed to it), plus the combination of all of them
Differs(s) == Cardinality({ f \in {"le", "blank", "nul", "q"} : s[f] # Plain[f] })
Styles == { s \in AllStyles : Differs(s) = 1 } \cup {[le |-> "CRLF", blank |-> "blanks", nul |-> 1, q |-> 1], [le |-> "CR", blank |-> "empty", nul |-> 1, q |-> 1]}
Init == base \in 0..2 /\ dev = <<>> /\ style = Plain
\* deviate at one more boundary (positions ascending, so each set of deviations is generated once)
Deviate(i, b) == /\ Len(dev) < MaxDev /\ b # base /\ style = Plain
                 /\ (IF dev = <<>> THEN TRUE ELSE dev[Len(dev)][1] < i)
                 /\ dev' = Append(dev, <<i, b>>) /\ UNCHANGED <<base, style>>
Restyle(s) == dev = <<>> /\ base = 1 /\ style = Plain /\ style' = s /\ UNCHANGED <<base, dev>>
Next == (\E i \in 1..N, b \in 0..2 : Deviate(i, b)) \/ (\E s \in Styles : Restyle(s))
Spec == Init /\ [][Next]_vars
\* the blanks at boundary i under the current state, respecting the minimum
Blanks(i, min) == LET c == { k \in 1..Len(dev) : dev[k][1] = i }
                      want == IF c = {} THEN base ELSE dev[CHOOSE k \in c : TRUE][2] IN
                  IF want < min THEN min ELSE want
DevOK == Len(dev) <= MaxDev /\ \A k \in 1..(Len(dev) - 1) : dev[k][1] < dev[k + 1][1]
=============================================================================
