-------------------------------- MODULE Decb --------------------------------
(***************************************************************************)
(* Color BASIC (the source language) as a language: expression grammar     *)
(* with the ROM's precedence (^ > unary +- > * / > + - > relational > NOT  *)
(* > AND > OR, all binary operators left associative), statement forms of  *)
(* the fragment the properties talk about, and the line structure of       *)
(* IF/THEN/ELSE (THEN branch = rest of the line up to the matching ELSE,   *)
(* ELSE pairs with the nearest IF).  Input: lines [num, toks]; tokens      *)
(* [k, v, n, d, s] with k = "num" | "hex" | "str" | "id" | "kw" | "op" |   *)
(* "raw" (unquoted DATA item / comment text).  For "id" tokens v is the    *)
(* name Color BASIC uses (first two characters + type suffix).  Output:    *)
(* the same instruction records module B09 produces, so that one machine   *)
(* (module Machine) executes both languages.                               *)
(***************************************************************************)
EXTENDS B09

DIsK(tk, k, v) == tk.k = k /\ tk.v = v
DOp(tk, v) == tk.k = "op" /\ tk.v = v
DKw(tk, v) == tk.k = "kw" /\ tk.v = v

DFun1 == {"ABS", "ATN", "COS", "EXP", "FIX", "LEN", "LOG", "PEEK", "RND", "SGN", "SIN", "SQR", "TAN",
          "INT", "VAL", "ASC", "CHR$", "STR$", "HEX$", "BUTTON", "JOYSTK", "TAB", "VARPTR"}
DFun2 == {"LEFT$", "RIGHT$", "STRING$", "POINT"}
DFun3 == {"MID$", "INSTR"}
DFun0 == {"INKEY$", "ERNO"}
DFuns == DFun0 \cup DFun1 \cup DFun2 \cup DFun3
\* functions the translator has to turn into procedure calls (property C05)
Convertible == {"INT", "VAL", "STR$", "HEX$", "INSTR", "STRING$", "INKEY$", "BUTTON", "JOYSTK", "POINT"}

DPrec(op) == CASE op = "OR" -> 1 [] op = "AND" -> 2 [] IsRelOp(op) -> 4
               [] op \in {"+", "-"} -> 5 [] op \in {"*", "/"} -> 6 [] op = "^" -> 8 [] OTHER -> 0
DOpOf(tk) == IF tk.k = "op" THEN tk.v ELSE IF tk.k = "kw" /\ tk.v \in {"AND", "OR"} THEN tk.v ELSE ""
DFail(i) == <<FALSE, Nil, i>>

RECURSIVE DExp(_, _, _), DPrim(_, _), DRest(_, _, _, _), DArgs(_, _, _)
DArgs(t, i, acc) ==
  LET e == DExp(t, i, 1) IN
  IF ~e[1] \/ e[3] > Len(t) THEN DFail(i)
  ELSE IF DOp(t[e[3]], ",") THEN DArgs(t, e[3] + 1, Append(acc, e[2]))
  ELSE IF DOp(t[e[3]], ")") THEN <<TRUE, Append(acc, e[2]), e[3] + 1>>
  ELSE DFail(i)
DPrim(t, i) ==
  IF i > Len(t) THEN DFail(i)
  ELSE LET tk == t[i] IN
    IF tk.k \in {"num", "hex"} THEN <<TRUE, N4("num", tk.n, tk.d, "real"), i + 1>>
    ELSE IF tk.k = "big" THEN <<TRUE, N4("big", tk.v, tk.s, ""), i + 1>>     \* a spelling the shim does not evaluate: its text
    ELSE IF tk.k = "str" THEN <<TRUE, N4("str", tk.s, "", ""), i + 1>>
    ELSE IF DOp(tk, "-") THEN LET r == DExp(t, i + 1, 7) IN IF r[1] THEN <<TRUE, N4("un", "neg", r[2], ""), r[3]>> ELSE r
    ELSE IF DOp(tk, "+") THEN LET r == DExp(t, i + 1, 7) IN IF r[1] THEN <<TRUE, N4("un", "pos", r[2], ""), r[3]>> ELSE r
    ELSE IF DKw(tk, "NOT") THEN LET r == DExp(t, i + 1, 3) IN IF r[1] THEN <<TRUE, N4("un", "NOT", r[2], ""), r[3]>> ELSE r
    ELSE IF DOp(tk, "(") THEN
       LET r == DExp(t, i + 1, 1) IN
       IF r[1] /\ r[3] <= Len(t) /\ DOp(t[r[3]], ")") THEN <<TRUE, N4("par", r[2], "", ""), r[3] + 1>> ELSE DFail(i)
    ELSE IF tk.k = "kw" /\ tk.v \in DFun0 THEN <<TRUE, N4("call", tk.v, <<>>, ""), i + 1>>
    ELSE IF tk.k = "kw" /\ tk.v \in DFuns THEN
       IF i + 1 <= Len(t) /\ DOp(t[i + 1], "(") THEN
          LET a == DArgs(t, i + 2, <<>>) IN
          IF a[1] THEN <<TRUE, N4("call", tk.v, a[2], ""), a[3]>> ELSE DFail(i)
       ELSE DFail(i)
    ELSE IF tk.k = "id" THEN
       IF i + 1 <= Len(t) /\ DOp(t[i + 1], "(") THEN
          LET a == DArgs(t, i + 2, <<>>) IN
          IF a[1] THEN <<TRUE, N4("idx", tk.v, a[2], TyOf(tk)), a[3]>> ELSE DFail(i)
       ELSE <<TRUE, N4("var", tk.v, TyOf(tk), ""), i + 1>>
    ELSE DFail(i)
DRest(t, lhs, i, minp) ==
  IF i > Len(t) \/ DPrec(DOpOf(t[i])) = 0 \/ DPrec(DOpOf(t[i])) < minp THEN <<TRUE, lhs, i>>
  ELSE LET op == DOpOf(t[i])  r == DExp(t, i + 1, DPrec(op) + 1) IN
       IF ~r[1] THEN r ELSE DRest(t, N4("bin", op, lhs, r[2]), r[3], minp)
DExp(t, i, minp) == LET p == DPrim(t, i) IN IF ~p[1] THEN p ELSE DRest(t, p[2], p[3], minp)

(* ------------------------------ statements ------------------------------ *)
(* result: <<ok, instructions with jumps relative to their own index, next>> *)
SFail == <<FALSE, <<>>, 0>>
One(ins, nx) == <<TRUE, << ins >>, nx>>
RECURSIVE DStmt(_, _), DStmts(_, _), DNextVars(_, _, _), DLvals(_, _, _), DPrintItems(_, _, _), DData(_, _, _), DDimList(_, _, _), DIntList(_, _, _)

EndOfStmt(t, i) == i > Len(t) \/ DOp(t[i], ":") \/ DKw(t[i], "ELSE")

DLvals(t, i, acc) ==
  LET e == DPrim(t, i) IN
  IF ~e[1] \/ ~IsLValue(e[2]) THEN <<FALSE, acc, i>>
  ELSE IF e[3] <= Len(t) /\ DOp(t[e[3]], ",") THEN DLvals(t, e[3] + 1, Append(acc, e[2]))
  ELSE <<TRUE, Append(acc, e[2]), e[3]>>
DNextVars(t, i, acc) ==
  IF i <= Len(t) /\ t[i].k = "id" THEN
     LET a2 == Append(acc, [I0 EXCEPT !.op = "NEXT", !.x = t[i].v, !.sk = "NEXT-var"]) IN
     IF i + 1 <= Len(t) /\ DOp(t[i + 1], ",") THEN DNextVars(t, i + 2, a2) ELSE <<TRUE, a2, i + 1>>
  ELSE IF acc = <<>> THEN One([I0 EXCEPT !.op = "NEXT", !.sk = "NEXT-bare"], i) ELSE SFail
\* PRINT list: expressions, ; and , in any arrangement; juxtaposed items behave like ;
DPrintItems(t, i, acc) ==
  IF EndOfStmt(t, i) THEN <<TRUE, acc, i>>
  ELSE IF DOp(t[i], ";") \/ DOp(t[i], ",") THEN DPrintItems(t, i + 1, Append(acc, Sep(t[i].v)))
  ELSE LET e == DExp(t, i, 1) IN
       IF ~e[1] THEN <<FALSE, acc, i>> ELSE DPrintItems(t, e[3], Append(acc, e[2]))
\* DATA items: raw text, quoted strings; an item may be empty
DData(t, i, acc) ==
  IF i > Len(t) THEN <<TRUE, acc, i>>
  ELSE IF t[i].k \in {"raw", "str", "num", "hex"} THEN
       LET it == IF t[i].k = "str" THEN N4("dstr", t[i].s, "", "") ELSE N4("draw", t[i].s, t[i].k, "") IN
       IF i + 1 <= Len(t) /\ DOp(t[i + 1], ",") THEN DData(t, i + 2, Append(acc, it))
       ELSE <<i + 1 > Len(t) \/ DOp(t[i + 1], ":"), Append(acc, it), i + 1>>
  ELSE <<FALSE, acc, i>>
DIntList(t, i, acc) ==   \* n {, n} )
  IF i <= Len(t) /\ t[i].k \in {"num", "hex"} /\ t[i].d = 1 THEN
     IF i + 1 <= Len(t) /\ DOp(t[i + 1], ",") THEN DIntList(t, i + 2, Append(acc, t[i].n))
     ELSE IF i + 1 <= Len(t) /\ DOp(t[i + 1], ")") THEN <<TRUE, Append(acc, t[i].n), i + 2>>
     ELSE <<FALSE, acc, i>>
  ELSE <<FALSE, acc, i>>
DDimList(t, i, acc) ==
  IF i <= Len(t) /\ t[i].k = "id" THEN
     LET dm == IF i + 1 <= Len(t) /\ DOp(t[i + 1], "(") THEN DIntList(t, i + 2, <<>>) ELSE <<TRUE, <<>>, i + 1>>
         a2 == Append(acc, Decl(t[i].v, dm[2], <<"", 0>>)) IN
     IF ~dm[1] THEN <<FALSE, acc, i>>
     ELSE IF dm[3] <= Len(t) /\ DOp(t[dm[3]], ",") THEN DDimList(t, dm[3] + 1, a2)
     ELSE <<TRUE, a2, dm[3]>>
  ELSE <<FALSE, acc, i>>
RECURSIVE DLines(_, _, _)
DLines(t, i, acc) ==
  IF i <= Len(t) /\ t[i].k = "num" /\ t[i].d = 1 THEN
     IF i + 1 <= Len(t) /\ DOp(t[i + 1], ",") THEN DLines(t, i + 2, Append(acc, t[i].n))
     ELSE <<TRUE, Append(acc, t[i].n), i + 1>>
  ELSE <<FALSE, acc, i>>

\* what follows THEN or ELSE: a line number or the statements up to the matching ELSE / end of line
DBranch(t, j) ==
  IF j <= Len(t) /\ t[j].k = "num" /\ (j = Len(t) \/ DKw(t[j + 1], "ELSE") \/ DOp(t[j + 1], ":"))
  THEN One([I0 EXCEPT !.op = "GOTO", !.n = t[j].n, !.sk = "THEN-line"], j + 1)
  ELSE DStmts(t, j)
IfShape(elseCode) ==
  IF Len(elseCode) >= 1 /\ elseCode[1].op = "JF" /\ elseCode[1].x = "whole" THEN
     LET s == elseCode[1].sk IN
     IF s = "IF" THEN "IF-ELSEIF-noELSE" ELSE IF s = "IF-ELSE" THEN "IF-ELSEIF-ELSE" ELSE s
  ELSE "IF-ELSE"
\* coordinates  ( e , e )
DCoords(t, i) ==
  IF i <= Len(t) /\ DOp(t[i], "(") THEN
     LET a == DArgs(t, i + 1, <<>>) IN IF a[1] /\ Len(a[2]) = 2 THEN a ELSE DFail(i)
  ELSE DFail(i)
Dev(kind, ops, nx) == One([I0 EXCEPT !.op = "DEV", !.x = kind, !.a = ops, !.sk = kind], nx)
Omitted == N4("omitted", "", "", "")
\* optional expression lists  e {, e} with possibly empty positions, up to the end of the statement
RECURSIVE DOptArgs(_, _, _)
DOptArgs(t, i, acc) ==
  IF EndOfStmt(t, i) THEN <<TRUE, Append(acc, Omitted), i>>
  ELSE IF DOp(t[i], ",") THEN DOptArgs(t, i + 1, Append(acc, Omitted))
  ELSE LET e == DExp(t, i, 1) IN
       IF ~e[1] THEN <<FALSE, acc, i>>
       ELSE IF e[3] <= Len(t) /\ DOp(t[e[3]], ",") THEN DOptArgs(t, e[3] + 1, Append(acc, e[2]))
       ELSE <<TRUE, Append(acc, e[2]), e[3]>>

DStmt(t, i) ==
  IF i > Len(t) THEN SFail
  ELSE LET tk == t[i] IN
  IF DKw(tk, "IF") THEN
    LET c == DExp(t, i + 1, 1) IN
    IF ~c[1] \/ c[3] > Len(t) \/ ~DKw(t[c[3]], "THEN") THEN SFail
    ELSE LET th == DBranch(t, c[3] + 1) IN
      IF ~th[1] THEN SFail
      ELSE IF th[3] <= Len(t) /\ DKw(t[th[3]], "ELSE") THEN
        LET el == DBranch(t, th[3] + 1) IN
        IF ~el[1] THEN SFail
        ELSE <<TRUE, << [I0 EXCEPT !.op = "JF", !.n = Len(th[2]) + 2, !.e = c[2], !.x = "whole", !.sk = IfShape(el[2])] >>
                     \o th[2] \o << [I0 EXCEPT !.op = "JMP", !.n = Len(el[2]) + 1, !.sk = "ELSE"] >> \o el[2], el[3]>>
      ELSE <<TRUE, << [I0 EXCEPT !.op = "JF", !.n = Len(th[2]) + 1, !.e = c[2], !.x = "whole", !.sk = "IF"] >> \o th[2], th[3]>>
  ELSE IF tk.k = "kw" /\ tk.v \in {"GOTO", "GOSUB"} THEN
    IF i + 1 <= Len(t) /\ t[i + 1].k = "num" THEN One([I0 EXCEPT !.op = tk.v, !.n = t[i + 1].n, !.sk = tk.v], i + 2) ELSE SFail
  ELSE IF DKw(tk, "ON") THEN
    IF i + 3 <= Len(t) /\ t[i + 1].k = "kw" /\ t[i + 1].v \in {"ERR", "BRK"} /\ DKw(t[i + 2], "GOTO") /\ t[i + 3].k = "num" THEN
       One([I0 EXCEPT !.op = IF t[i + 1].v = "ERR" THEN "ONERR" ELSE "ONBRK", !.n = t[i + 3].n, !.sk = "ON-" \o t[i + 1].v], i + 4)
    ELSE LET c == DExp(t, i + 1, 1) IN
      IF ~c[1] \/ c[3] > Len(t) \/ ~(DKw(t[c[3]], "GOTO") \/ DKw(t[c[3]], "GOSUB")) THEN SFail
      ELSE LET l == DLines(t, c[3] + 1, <<>>) IN
           IF l[1] THEN One([I0 EXCEPT !.op = "ONGO", !.x = t[c[3]].v, !.e = c[2], !.a = l[2], !.sk = "ON-" \o t[c[3]].v], l[3]) ELSE SFail
  ELSE IF DKw(tk, "RETURN") THEN One([I0 EXCEPT !.op = "RETURN", !.sk = "RETURN"], i + 1)
  ELSE IF DKw(tk, "END") \/ DKw(tk, "STOP") THEN One([I0 EXCEPT !.op = "HALT", !.sk = tk.v], i + 1)
  ELSE IF tk.k = "kw" /\ tk.v \in {"TRON", "TROFF"} THEN One([I0 EXCEPT !.sk = tk.v], i + 1)
  ELSE IF DKw(tk, "RESTORE") THEN One([I0 EXCEPT !.op = "RESTORE", !.sk = "RESTORE"], i + 1)
  ELSE IF DKw(tk, "REM") THEN One([I0 EXCEPT !.op = "REM", !.sk = "REM"], Len(t) + 1)
  ELSE IF DKw(tk, "CLEAR") THEN
    IF EndOfStmt(t, i + 1) THEN One([I0 EXCEPT !.sk = "CLEAR"], i + 1)
    ELSE LET e == DExp(t, i + 1, 1) IN IF e[1] THEN One([I0 EXCEPT !.sk = "CLEAR"], e[3]) ELSE SFail
  ELSE IF DKw(tk, "FOR") THEN
    IF i + 2 <= Len(t) /\ t[i + 1].k = "id" /\ DOp(t[i + 2], "=") THEN
      LET a == DExp(t, i + 3, 1) IN
      IF ~a[1] \/ a[3] > Len(t) \/ ~DKw(t[a[3]], "TO") THEN SFail
      ELSE LET b == DExp(t, a[3] + 1, 1) IN
        IF ~b[1] THEN SFail
        ELSE IF b[3] <= Len(t) /\ DKw(t[b[3]], "STEP") THEN
          LET s == DExp(t, b[3] + 1, 1) IN
          IF s[1] THEN One([I0 EXCEPT !.op = "FOR", !.x = t[i + 1].v, !.e = a[2], !.e2 = b[2], !.e3 = s[2], !.sk = "FOR-STEP"], s[3]) ELSE SFail
        ELSE One([I0 EXCEPT !.op = "FOR", !.x = t[i + 1].v, !.e = a[2], !.e2 = b[2], !.e3 = N4("num", 1, 1, "real"), !.sk = "FOR"], b[3])
    ELSE SFail
  ELSE IF DKw(tk, "NEXT") THEN DNextVars(t, i + 1, <<>>)
  ELSE IF DKw(tk, "PRINT") THEN
    IF i + 1 <= Len(t) /\ DOp(t[i + 1], "@") THEN
       LET loc == DExp(t, i + 2, 1) IN
       IF ~loc[1] THEN SFail
       ELSE IF EndOfStmt(t, loc[3]) THEN Dev("PRINT@", << loc[2] >>, loc[3])
       ELSE IF DOp(t[loc[3]], ",") THEN
            LET p == DPrintItems(t, loc[3] + 1, <<>>) IN
            IF p[1] THEN <<TRUE, << [I0 EXCEPT !.op = "DEV", !.x = "PRINT@", !.a = << loc[2] >>, !.sk = "PRINT@"],
                                    [I0 EXCEPT !.op = "PRINT", !.a = p[2], !.sk = "PRINT"] >>, p[3]>> ELSE SFail
       ELSE SFail
    ELSE LET p == DPrintItems(t, i + 1, <<>>) IN
         IF p[1] THEN One([I0 EXCEPT !.op = "PRINT", !.a = p[2], !.sk = "PRINT"], p[3]) ELSE SFail
  ELSE IF DKw(tk, "INPUT") \/ (DKw(tk, "LINE") /\ i + 1 <= Len(t) /\ DKw(t[i + 1], "INPUT")) THEN
    LET j == IF DKw(tk, "LINE") THEN i + 2 ELSE i + 1
        line == DKw(tk, "LINE")
        hasP == j + 1 <= Len(t) /\ t[j].k = "str" /\ DOp(t[j + 1], ";")
        l == DLvals(t, IF hasP THEN j + 2 ELSE j, <<>>) IN
    IF l[1] THEN One([I0 EXCEPT !.op = "INPUT", !.x = IF line THEN "LINE" ELSE "", !.e = IF hasP THEN N4("str", t[j].s, "", "") ELSE N4("str", <<>>, "", ""),
                                !.a = l[2], !.sk = IF line THEN "LINE-INPUT" ELSE "INPUT"], l[3]) ELSE SFail
  ELSE IF DKw(tk, "READ") THEN
    LET l == DLvals(t, i + 1, <<>>) IN IF l[1] THEN One([I0 EXCEPT !.op = "READ", !.a = l[2], !.sk = "READ"], l[3]) ELSE SFail
  ELSE IF DKw(tk, "DATA") THEN
    LET d == DData(t, i + 1, <<>>) IN IF d[1] THEN One([I0 EXCEPT !.op = "DATA", !.a = d[2], !.sk = "DATA"], d[3]) ELSE SFail
  ELSE IF DKw(tk, "DIM") THEN
    LET d == DDimList(t, i + 1, <<>>) IN IF d[1] THEN One([I0 EXCEPT !.op = "DIM", !.a = d[2], !.sk = "DIM"], d[3]) ELSE SFail
  (* ---- device statements: operands by role, omitted ones marked ---- *)
  ELSE IF tk.k = "kw" /\ tk.v \in {"CLS", "HSCREEN", "HCLS", "WIDTH"} THEN
    IF EndOfStmt(t, i + 1) THEN Dev(tk.v, << Omitted >>, i + 1)
    ELSE LET e == DExp(t, i + 1, 1) IN IF e[1] THEN Dev(tk.v, << e[2] >>, e[3]) ELSE SFail
  ELSE IF tk.k = "kw" /\ tk.v \in {"SOUND", "LOCATE", "POKE", "HBUFF"} THEN
    LET a == DOptArgs(t, i + 1, <<>>) IN IF a[1] /\ Len(a[2]) = 2 THEN Dev(tk.v, a[2], a[3]) ELSE SFail
  ELSE IF DKw(tk, "HCOLOR") THEN
    LET a == DOptArgs(t, i + 1, <<>>) IN
    IF a[1] /\ Len(a[2]) = 1 THEN Dev("HCOLOR", << a[2][1], Omitted >>, a[3])
    ELSE IF a[1] /\ Len(a[2]) = 2 THEN Dev("HCOLOR", a[2], a[3]) ELSE SFail
  ELSE IF DKw(tk, "PALETTE") THEN
    IF i + 1 <= Len(t) /\ t[i + 1].k = "kw" /\ t[i + 1].v \in {"RGB", "CMP"} THEN Dev("PALETTE-" \o t[i + 1].v, <<>>, i + 2)
    ELSE LET a == DOptArgs(t, i + 1, <<>>) IN IF a[1] /\ Len(a[2]) = 2 THEN Dev("PALETTE", a[2], a[3]) ELSE SFail
  ELSE IF tk.k = "kw" /\ tk.v \in {"RGB", "CMP"} THEN Dev("PALETTE-" \o tk.v, <<>>, i + 1)
  ELSE IF DKw(tk, "ATTR") THEN
    LET f == DExp(t, i + 1, 1) IN
    IF ~f[1] \/ f[3] > Len(t) \/ ~DOp(t[f[3]], ",") THEN SFail
    ELSE LET b == DExp(t, f[3] + 1, 1) IN
      IF ~b[1] THEN SFail
      ELSE LET rest == { j \in b[3]..Len(t) : \A q \in b[3]..j : DOp(t[q], ",") \/ (t[q].k = "id" /\ t[q].v \in {"B", "U"}) }
               last == IF rest = {} THEN b[3] - 1 ELSE CHOOSE j \in rest : \A q \in rest : q <= j
               hasB == \E j \in b[3]..last : t[j].k = "id" /\ t[j].v = "B"
               hasU == \E j \in b[3]..last : t[j].k = "id" /\ t[j].v = "U" IN
           Dev("ATTR", << f[2], b[2], N4("num", IF hasB THEN 1 ELSE 0, 1, "real"), N4("num", IF hasU THEN 1 ELSE 0, 1, "real") >>, last + 1)
  ELSE IF tk.k = "kw" /\ tk.v \in {"SET", "RESET", "HSET", "HRESET"} THEN
    IF i + 1 <= Len(t) /\ DOp(t[i + 1], "(") THEN
       LET a == DArgs(t, i + 2, <<>>) IN
       IF a[1] THEN Dev(tk.v \o (IF tk.v = "HSET" /\ Len(a[2]) = 3 THEN "3" ELSE ""), a[2], a[3]) ELSE SFail
    ELSE SFail
  ELSE IF tk.k = "kw" /\ tk.v \in {"PLAY", "HDRAW"} THEN
    LET e == DExp(t, i + 1, 1) IN IF e[1] THEN Dev(tk.v, << e[2] >>, e[3]) ELSE SFail
  ELSE IF DKw(tk, "HPRINT") THEN
    LET c == DCoords(t, i + 1) IN
    IF ~c[1] \/ c[3] > Len(t) \/ ~DOp(t[c[3]], ",") THEN SFail
    ELSE LET e == DExp(t, c[3] + 1, 1) IN IF e[1] THEN Dev("HPRINT", << c[2][1], c[2][2], e[2] >>, e[3]) ELSE SFail
  ELSE IF DKw(tk, "HPAINT") THEN
    LET c == DCoords(t, i + 1) IN
    IF ~c[1] THEN SFail
    ELSE IF c[3] <= Len(t) /\ DOp(t[c[3]], ",") THEN
         LET a == DOptArgs(t, c[3] + 1, <<>>) IN
         IF a[1] /\ Len(a[2]) <= 2 THEN Dev("HPAINT", << c[2][1], c[2][2], a[2][1], IF Len(a[2]) = 2 THEN a[2][2] ELSE Omitted >>, a[3]) ELSE SFail
    ELSE Dev("HPAINT", << c[2][1], c[2][2], Omitted, Omitted >>, c[3])
  ELSE IF DKw(tk, "HCIRCLE") THEN
    LET c == DCoords(t, i + 1) IN
    IF ~c[1] \/ c[3] > Len(t) \/ ~DOp(t[c[3]], ",") THEN SFail
    ELSE LET a == DOptArgs(t, c[3] + 1, <<>>) IN    \* r [, [c] [, ratio [, start, end]]]
      IF ~a[1] \/ a[2][1][1] = "omitted" THEN SFail
      ELSE LET g(k) == IF k <= Len(a[2]) THEN a[2][k] ELSE Omitted IN
           IF Len(a[2]) <= 3 THEN Dev("HCIRCLE", << c[2][1], c[2][2], g(1), g(2), g(3) >>, a[3])
           ELSE IF Len(a[2]) = 5 THEN Dev("HARC", << c[2][1], c[2][2], g(1), g(2), g(3), g(4), g(5) >>, a[3])
           ELSE SFail
  ELSE IF DKw(tk, "HLINE") THEN
    LET src == IF i + 1 <= Len(t) /\ DOp(t[i + 1], "(") THEN DCoords(t, i + 1) ELSE <<TRUE, <<>>, i + 1>>
        j == src[3] IN
    IF ~src[1] \/ j > Len(t) \/ ~DOp(t[j], "-") THEN SFail
    ELSE LET dst == DCoords(t, j + 1)  q == dst[3] IN
      IF ~dst[1] \/ q + 1 > Len(t) \/ ~DOp(t[q], ",") \/ ~(t[q + 1].k = "kw" /\ t[q + 1].v \in {"PSET", "PRESET"}) THEN SFail
      ELSE LET hasOpt == q + 3 <= Len(t) /\ DOp(t[q + 2], ",") /\ t[q + 3].k = "id" /\ t[q + 3].v \in {"B", "BF"}
               \* keyword operands reach the runtime as the text of the keyword ("L" when no box option is given)
               tyw == IF hasOpt THEN N4("str", t[q + 3].s, "", "") ELSE N4("str", <<76>>, "", "") IN
           Dev(IF src[2] = <<>> THEN "HLINE-rel" ELSE "HLINE",
               (IF src[2] = <<>> THEN << Omitted, Omitted >> ELSE src[2]) \o dst[2] \o << N4("str", t[q + 1].s, "", ""), tyw >>,
               IF hasOpt THEN q + 4 ELSE q + 2)
  ELSE IF tk.k = "kw" /\ tk.v \in {"HGET", "HPUT"} THEN
    LET c1 == DCoords(t, i + 1) IN
    IF ~c1[1] \/ c1[3] > Len(t) \/ ~DOp(t[c1[3]], "-") THEN SFail
    ELSE LET c2 == DCoords(t, c1[3] + 1) IN
      IF ~c2[1] \/ c2[3] > Len(t) \/ ~DOp(t[c2[3]], ",") THEN SFail
      ELSE LET b == DExp(t, c2[3] + 1, 1) IN
        IF ~b[1] THEN SFail
        ELSE IF tk.v = "HGET" THEN Dev("HGET", c1[2] \o c2[2] \o << b[2] >>, b[3])
        ELSE IF b[3] + 1 <= Len(t) /\ DOp(t[b[3]], ",") /\ t[b[3] + 1].k = "kw" THEN
             Dev("HPUT", c1[2] \o c2[2] \o << b[2], N4("str", t[b[3] + 1].s, "", "") >>, b[3] + 2)
        ELSE SFail
  (* ---- assignment ---- *)
  ELSE LET k == IF DKw(tk, "LET") THEN i + 1 ELSE i IN
    IF k > Len(t) \/ t[k].k # "id" THEN SFail
    ELSE LET l == DPrim(t, k) IN
      IF ~l[1] \/ ~IsLValue(l[2]) \/ l[3] > Len(t) \/ ~DOp(t[l[3]], "=") THEN SFail
      ELSE LET e == DExp(t, l[3] + 1, 1) IN
           IF e[1] THEN One([I0 EXCEPT !.op = "ASSIGN", !.e = e[2], !.e2 = l[2], !.sk = "LET"], e[3]) ELSE SFail
DStmts(t, i) ==
  IF i > Len(t) THEN <<TRUE, <<>>, i>>
  ELSE IF DOp(t[i], ":") THEN DStmts(t, i + 1)            \* empty statement
  ELSE IF DKw(t[i], "ELSE") THEN <<TRUE, <<>>, i>>
  ELSE LET s == DStmt(t, i) IN
    IF ~s[1] THEN SFail
    ELSE IF s[3] <= Len(t) /\ DOp(t[s[3]], ":") THEN
         LET r == DStmts(t, s[3] + 1) IN
         IF r[1] THEN <<TRUE, s[2] \o [k \in 1..Len(r[2]) |-> r[2][k]], r[3]>> ELSE SFail
    ELSE s

\* whole program: absolute jump targets, line table, DATA items in textual order
Rebase(ins, base) == [k \in 1..Len(ins) |-> IF ins[k].op \in {"JF", "JMP"} THEN [ins[k] EXCEPT !.n = base + k + @] ELSE ins[k]]
DProg(lines) ==
  FoldLeft(LAMBDA acc, k :
      LET ln == lines[k]  r == DStmts(ln.toks, 1) IN
      IF ~acc.ok THEN acc
      ELSE IF ~r[1] \/ r[3] # Len(ln.toks) + 1 THEN [acc EXCEPT !.ok = FALSE, !.err = "src-parse", !.errln = k]
      ELSE LET code == IF r[2] = <<>> THEN << [I0 EXCEPT !.sk = "empty-line"] >> ELSE r[2] IN
           [acc EXCEPT !.code = @ \o [j \in 1..Len(code) |-> [Rebase(code, Len(acc.code))[j] EXCEPT !.ln = k]],
                       !.lab = IF ln.num \in DOMAIN @ THEN @ ELSE @ @@ (ln.num :> Len(acc.code) + 1)],
    [ok |-> TRUE, err |-> "", errln |-> 0, code |-> <<>>, lab |-> <<>>], [k \in 1..Len(lines) |-> k])
=============================================================================
