--------------------------- MODULE MC_DataText ---------------------------
(* Model checking of the normal form used by DataText (C20, second part):   *)
(* TLC enumerates every decimal text  [sign] mantissa [E [sign] digit]  over *)
(* a small alphabet and checks that the normal form does not depend on the  *)
(* spelling: zeros in front of the mantissa, zeros after the last decimal,  *)
(* a point at the end, an exponent spelled out as zeros, case of the        *)
(* exponent letter, blanks.                                                 *)
EXTENDS DataText
MantChars == {48, 49, 53, 46}
Mants == UNION { [1..k -> MantChars] : k \in 1..4 }
Signs == {<<>>, <<45>>, <<43>>, <<45, 45>>}
Exps == {<<>>, <<69, 48>>, <<69, 50>>, <<69, 45, 50>>, <<69, 43, 49>>, <<101, 45, 48, 53>>}
VARIABLES sg, mt, ex
vars == <<sg, mt, ex>>
\* (ci, vd: the trace-validation variables of DataText, unused here)
MInit == sg \in Signs /\ mt \in Mants /\ ex \in Exps /\ ci = 0 /\ vd = 0
MNext == UNCHANGED <<vars, ci, vd>>
T == sg \o mt \o ex
HasDot == \E k \in 1..Len(mt) : mt[k] = 46
NoE == ex = <<>>
Zeros(n) == [k \in 1..n |-> 48]
\* the texts the normal form accepts are exactly those with at most one point and at least one digit
Accepts == Norm(T).ok <=> (Cardinality({ k \in 1..Len(mt) : mt[k] = 46 }) <= 1 /\ \E k \in 1..Len(mt) : IsDigit(mt[k]))
LeadingZero == Norm(T).ok => Norm(sg \o <<48>> \o mt \o ex) = Norm(T)
TrailingZero == (Norm(T).ok /\ HasDot) => Norm(sg \o mt \o <<48>> \o ex) = Norm(T)
PointAtEnd == (Norm(T).ok /\ ~HasDot) => Norm(sg \o mt \o <<46>> \o ex) = Norm(T)
ExponentAsZeros == (Norm(T).ok /\ ~HasDot /\ NoE) => /\ Norm(sg \o mt \o <<69, 50>>) = Norm(sg \o mt \o Zeros(2))
                                                    /\ Norm(sg \o mt \o Zeros(2) \o <<69, 45, 50>>) = Norm(T)
LetterCaseAndBlanks == Norm(T).ok => Norm(<<32>> \o sg \o <<32>> \o Upper(mt \o ex) \o <<32>>) = Norm(T)
DoubleSign == Norm(T).ok => Norm(<<45, 45>> \o T) = Norm(T) /\ (Norm(T).digits # <<>> => Norm(<<45>> \o T).neg # Norm(T).neg)
\* canonical: no zero at either end of the digit string, zero has one form
Canonical == Norm(T).ok => LET n == Norm(T) IN /\ (n.digits # <<>> => n.digits[1] # 48 /\ n.digits[Len(n.digits)] # 48)
                                              /\ (n.digits = <<>> => ~n.neg /\ n.exp = 0)
=============================================================================
