------------------------------ MODULE Trace_Img ------------------------------
(***************************************************************************)
(* Validation of decoder output against the abstract image (C16, C17, C18) *)
(* A case: the format and its parameters, the palette, the abstract image  *)
(* (byte runs of the data area, as the encoder machine produced them) and  *)
(* what the real decoder wrote: header fields, number of sample bytes and  *)
(* the pixels as merged runs.  The expected picture is computed here from  *)
(* the abstract image alone.                                               *)
(***************************************************************************)
EXTENDS Img, Json, IOUtils
Cases == JsonDeserialize(IOEnv.CASES)

\* MGE: composite palette code -> RGB palette code.  There is no definition of this mapping outside the decoder
\* (DESIGN.md 5, C16): it is recorded as a constant of the format; what can be said independently is checked below.
C2R == << 0, 21, 2, 20, 6, 49, 35, 4, 33, 5, 14, 1, 12, 10, 3, 28, 7, 17, 16, 22, 48, 34, 37, 32, 44, 40, 42, 13, 8, 11, 24, 26,
          56, 19, 18, 50, 54, 52, 38, 36, 46, 45, 41, 15, 9, 25, 27, 30, 63, 58, 23, 51, 55, 53, 39, 60, 47, 61, 43, 57, 29, 31, 59, 62 >>
C2RIsPermutation == { C2R[i] : i \in 1..64 } = 0..63
IsGrey(c) == Rgb(c)[1] = Rgb(c)[2] /\ Rgb(c)[2] = Rgb(c)[3]
C2RKeepsGreys == \A c \in {0, 16, 32, 48} : IsGrey(C2R[c + 1])       \* composite codes with zero chroma
ASSUME C2RIsPermutation /\ C2RKeepsGreys

EffPal(cs) == IF cs.cmp = 1 THEN [i \in 1..16 |-> C2R[cs.pal[i] + 1]] ELSE cs.pal
\* 2 bits per pixel, bits 7-6 leftmost (VEF types 1 and 3)
Push2bpp(acc, pal, v, n) ==
  LET c(k) == Rgb(pal[((v \div (2 ^ (6 - 2 * k))) % 4) + 1])
      one(a) == PushPix(PushPix(PushPix(PushPix(a, c(0), 1), c(1), 1), c(2), 1), c(3), 1) IN
  IF c(0) = c(1) /\ c(1) = c(2) /\ c(2) = c(3) THEN PushPix(acc, c(0), 4 * n)
  ELSE FoldLeft(LAMBDA a, k : one(a), acc, [k \in 1..n |-> k])
Picture2bpp(img, pal) == FoldLeft(LAMBDA a, r : Push2bpp(a, pal, r[1], r[2]), <<>>, img)
\* a picture with every row repeated (640-wide VEF output is doubled in height).  Rows are cut out of the
\* merged runs by a fold whose state carries the finished rows, the row being filled and how full it is.
CutRows(pic, w) ==
  LET step(st, r) ==
        \* a run may span several rows: first fill the current row, then whole rows, then the rest
        LET room == w - st.fill
            first == IF r[4] < room THEN r[4] ELSE room
            st1 == IF first = room THEN [rows |-> Append(st.rows, PushPix(st.cur, r, first)), cur |-> <<>>, fill |-> 0]
                   ELSE [rows |-> st.rows, cur |-> PushPix(st.cur, r, first), fill |-> st.fill + first]
            left == r[4] - first
            whole == left \div w
            tail == left % w
            st2 == [st1 EXCEPT !.rows = @ \o [k \in 1..whole |-> <<<<r[1], r[2], r[3], w>>>>]] IN
        IF tail = 0 THEN st2 ELSE [st2 EXCEPT !.cur = PushPix(<<>>, r, tail), !.fill = tail] IN
  FoldLeft(step, [rows |-> <<>>, cur |-> <<>>, fill |-> 0], pic).rows
DoubleRows(pic, w) ==
  FoldLeft(LAMBDA a, row : LET once == FoldLeft(LAMBDA b, r : PushPix(b, r, r[4]), a, row) IN FoldLeft(LAMBDA b, r : PushPix(b, r, r[4]), once, row),
           <<>>, CutRows(pic, w))
\* the byte of the abstract image that pixel p (4 bits per pixel) comes from
ByteOfPixel(img, p) ==
  LET r == FoldLeft(LAMBDA a, run : IF a[1] < 0 THEN a ELSE IF a[1] < run[2] THEN <<-1, run[1]>> ELSE <<a[1] - run[2], a[2]>>, <<p \div 2, 0>>, img) IN r[2]

\* ---- MAX / ART: one bit per pixel, MSB leftmost; nine ways to colour it ----
\* colour tables of the pixel modes: format constants (the property says "the colour its pixel mode assigns")
BR2 == << <<0, 0, 0>>, <<255, 85, 0>>, <<0, 170, 255>>, <<255, 255, 255>> >>
BR3 == << <<0, 0, 0>>, <<255, 0, 0>>, <<0, 0, 255>>, <<255, 255, 255>> >>
SEMIG == << <<0, 0, 0>>, <<0, 255, 0>>, <<255, 255, 0>>, <<0, 0, 255>>, <<255, 0, 0>>, <<255, 255, 255>>, <<0, 211, 170>>, <<204, 0, 255>>, <<255, 128, 0>> >>
TruncDiv(a, b) == IF a >= 0 THEN a \div b ELSE -((-a) \div b)
Clip(v) == IF v > 255 THEN 255 ELSE IF v < 0 THEN 0 ELSE v
PairColour(mode, v, k) ==         \* k-th bit pair of byte v (k = 0..3)
  LET hi == Bit(v, 7 - 2 * k)  lo == Bit(v, 6 - 2 * k) IN
  CASE mode = "br2" -> BR2[hi * 2 + lo + 1] [] mode = "rb2" -> BR2[hi + lo * 2 + 1]
    [] mode = "br3" -> BR3[hi * 2 + lo + 1] [] mode = "rb3" -> BR3[hi + lo * 2 + 1]
    [] mode = "s10" -> SEMIG[1 + hi + lo * 2 + 1] [] OTHER -> SEMIG[5 + hi + lo * 2 + 1]
\* artifact colours: an integer state machine over (previous luminance, previous colour, phase); the phase restarts
\* with every byte, luminance and colour memory with every row
ArtStep(st, bit) ==
  LET ny == bit * 255
      y == (st.oy + ny + (ny \div 4)) \div 2
      i == (st.x * (y - st.oy)) \div 128
      r == Clip(TruncDiv(10000 * y + 9563 * i, 10000))
      g == Clip(TruncDiv(10000 * y - 2721 * i, 10000))
      b == Clip(TruncDiv(10000 * y - 11070 * i, 10000)) IN
  [oy |-> ny, x |-> -st.x, r2 |-> r, g2 |-> g, b2 |-> b, pic |-> PushPix(st.pic, <<(r + st.r2) \div 2, (g + st.g2) \div 2, (b + st.b2) \div 2>>, 1)]
MaxPicture(bytes, mode, rowbytes) ==
  FoldLeft(LAMBDA st, k :
     LET v == bytes[k]
         s0 == IF (k - 1) % rowbytes = 0 THEN [st EXCEPT !.oy = 0, !.r2 = 0, !.g2 = 0, !.b2 = 0] ELSE st IN
     IF mode = "bw" THEN [s0 EXCEPT !.pic = FoldLeft(LAMBDA p, q : PushPix(p, BR2[Bit(v, 7 - q) * 3 + 1], 1), s0.pic, [q \in 1..8 |-> q - 1])]
     ELSE IF mode \in {"br", "rb"} THEN
          FoldLeft(LAMBDA s, q : ArtStep(s, Bit(v, 7 - q)), [s0 EXCEPT !.x = IF mode = "br" THEN -100 ELSE 100], [q \in 1..8 |-> q - 1])
     ELSE [s0 EXCEPT !.pic = FoldLeft(LAMBDA p, q : PushPix(p, PairColour(mode, v, q), 2), s0.pic, [q \in 1..4 |-> q - 1])],
     [oy |-> 0, x |-> 0, r2 |-> 0, g2 |-> 0, b2 |-> 0, pic |-> <<>>], [k \in 1..Len(bytes) |-> k]).pic
\* independent facts about the artifact machine (checked once per run): three equal bits give pure black / white
ArtSettles == \A mode \in {"br", "rb"} : \A bit \in {0, 1} :
   LET p == MaxPicture(<<bit * 255>>, mode, 1) IN PixAt(p, 7) = <<bit * 255, bit * 255, bit * 255>> /\ PixAt(p, 3) = <<bit * 255, bit * 255, bit * 255>>
ASSUME ArtSettles
\* ---- PIX: 4-bit grey, stored sideways ----
PixPicture(bytes, side) ==
  LET half == side \div 2
      grey(r, c) == LET v == bytes[c * half + (r \div 2) + 1]
                        nib == IF r % 2 = 0 THEN v \div 16 ELSE v % 16 IN 255 - 17 * nib IN
  FoldLeft(LAMBDA p, q : LET g == grey((q - 1) \div side, (q - 1) % side) IN PushPix(p, <<g, g, g>>, 1), <<>>, [q \in 1..(side * side) |-> q])

Dims(cs) == CASE cs.fmt = "RAT" -> <<320, 199>> [] cs.fmt = "MGE" -> <<320, 200>> [] cs.fmt = "HRS" -> <<cs.w, cs.h>>
              [] cs.fmt = "CM3" -> <<320, cs.h>> [] cs.fmt = "VEF" -> <<IF cs.veftype = 1 THEN 640 ELSE 320, IF cs.veftype = 1 THEN 400 ELSE 200>>
              [] OTHER -> <<cs.w, cs.h>>
\* HRS with an odd width: a row is (w + 1) / 2 bytes, the low nibble of its last byte is padding (toy sizes only)
HrsOddPicture(bytes, w, h, pal) ==
  LET rb == (w + 1) \div 2
      col(r, c) == LET v == bytes[r * rb + (c \div 2) + 1] IN Rgb(pal[(IF c % 2 = 0 THEN v \div 16 ELSE v % 16) + 1]) IN
  FoldLeft(LAMBDA p, q : PushPix(p, col((q - 1) \div w, (q - 1) % w), 1), <<>>, [q \in 1..(w * h) |-> q])
Expected(cs) ==
  CASE cs.fmt = "MAX" -> MaxPicture(Expand(cs.img), cs.mode, cs.w \div 8)
    [] cs.fmt = "HRS" /\ cs.w % 2 = 1 -> HrsOddPicture(Expand(cs.img), cs.w, cs.h, EffPal(cs))
    [] cs.fmt = "PIX" -> PixPicture(Expand(cs.img), cs.w)
    [] cs.fmt = "VEF" /\ cs.veftype = 1 -> DoubleRows(Picture2bpp(cs.img, EffPal(cs)), 640)
    [] cs.fmt = "VEF" /\ cs.veftype = 3 -> Picture2bpp(cs.img, EffPal(cs))
    [] OTHER -> Picture4bpp(cs.img, EffPal(cs))
SamplesPerPixel(cs) == IF cs.fmt \in {"VEF", "PIX"} THEN 1 ELSE 3

V(ok, clause, key, detail) == [ok |-> ok, clause |-> clause, key |-> key, detail |-> detail]
Verdict(cs) ==
  LET g == cs.got  d == Dims(cs) IN
  IF g.status # "ok" THEN V(FALSE, "failed", "decoder-failed-on-well-formed-input:" \o cs.fmt \o ":" \o g.status, "")
  ELSE IF g.w # d[1] \/ g.h # d[2] THEN V(FALSE, "header", "header:" \o cs.fmt \o ":announces-other-size", ToString(<<g.w, g.h>>) \o " want " \o ToString(d))
  ELSE IF g.nsamples # g.w * g.h * SamplesPerPixel(cs) THEN
       V(FALSE, "samples", "samples:" \o cs.fmt \o ":" \o (IF g.nsamples < g.w * g.h * SamplesPerPixel(cs) THEN "fewer" ELSE "more") \o "-than-announced", ToString(g.nsamples))
  ELSE LET want == Expected(cs)  p == FirstDiffPix(want, g.runs) IN
       IF p < 0 THEN V(TRUE, "ok", "", ToString(NPix(want)))
       ELSE LET wc == PixAt(want, p)  gc == PixAt(g.runs, p) IN
            V(FALSE, "pixel", "pixel:" \o cs.fmt \o ":" \o
                 (IF cs.fmt = "MAX" THEN "mode-" \o cs.mode ELSE IF cs.fmt = "PIX" THEN "grey"
                  ELSE IF cs.fmt = "VEF" /\ cs.veftype # 0 THEN "bit-pair-" \o ToString(p % 4)
                  ELSE LET b == ByteOfPixel(cs.img, p)
                           nib == IF p % 2 = 0 THEN b \div 16 ELSE b % 16 IN
                       (IF p % 2 = 0 THEN "high-nibble" ELSE "low-nibble") \o
                       (IF nib >= 8 /\ gc = Rgb(EffPal(cs)[(nib % 8) + 1]) THEN ":bit3-dropped" ELSE "")),
              "pixel " \o ToString(p) \o " want " \o ToString(wc) \o " got " \o ToString(gc))
VARIABLES ci, vd
Init == ci \in 1..Len(Cases) /\ vd = [clause |-> "todo"]
Next == vd.clause = "todo" /\ vd' = Verdict(Cases[ci]) /\ UNCHANGED ci
=============================================================================
