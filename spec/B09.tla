-------------------------------- MODULE B09 --------------------------------
(***************************************************************************)
(* BASIC09 as a language: reserved words, the expression grammar with      *)
(* BASIC09's own precedence, the statement forms, declarations, and the    *)
(* matching of block keywords.  Input is a sequence of lines, each a       *)
(* sequence of tokens  [k, v, n, d, s]  produced by a lexer that knows no  *)
(* grammar (k = "int" | "real" | "str" | "id" | "op" | "cmt" | "ustr" |    *)
(* "bad"; identifiers upper-cased; s = bytes of a string literal).         *)
(* Output is a list of instructions with resolved jump targets, or a       *)
(* located error whose clause names the sentence of property C07 that the  *)
(* text breaks.                                                            *)
(*                                                                         *)
(* The reserved-word list is the keyword table of the basic09 binary on    *)
(* the OS-9 disk shipped in /repo/playground (DESIGN.md 4.1).              *)
(***************************************************************************)
EXTENDS Vals

Nil == <<"nil", "", "", "">>
N4(k, a, b, c) == <<k, a, b, c>>
IsOpT(tk, v) == tk.k = "op" /\ tk.v = v
IsKw(tk, w) == tk.k = "id" /\ tk.v = w
\* identifier tokens carry the bytes of their spelling in s; a trailing $ makes a string name
TyOf(tk) == IF tk.s # <<>> /\ tk.s[Len(tk.s)] = 36 THEN "$" ELSE ""

B09Fun0 == {"PI", "TRUE", "FALSE", "ERR", "POS", "DATE$"}
B09Fun1 == {"SIN", "COS", "TAN", "ASN", "ACS", "ATN", "EXP", "LOG", "LOG10", "SGN", "ABS",
            "SQRT", "SQR", "INT", "FIX", "FLOAT", "SQ", "PEEK", "LNOT", "VAL", "LEN", "ASC",
            "CHR$", "STR$", "TRIM$", "RND", "EOF", "TAB", "ADDR", "SIZE"}
B09Fun2 == {"LAND", "LOR", "LXOR", "LEFT$", "RIGHT$", "MOD", "SUBSTR"}
B09Fun3 == {"MID$"}
B09Funs == B09Fun0 \cup B09Fun1 \cup B09Fun2 \cup B09Fun3
B09Reserved == B09Funs \cup
  {"PARAM", "TYPE", "DIM", "DATA", "STOP", "BYE", "TRON", "TROFF", "PAUSE", "DEG", "RAD", "RETURN",
   "LET", "POKE", "IF", "ELSE", "ENDIF", "FOR", "NEXT", "WHILE", "ENDWHILE", "REPEAT", "UNTIL",
   "LOOP", "ENDLOOP", "EXITIF", "ENDEXIT", "ON", "ERROR", "GOTO", "GOSUB", "RUN", "KILL", "INPUT",
   "PRINT", "CHD", "CHX", "CREATE", "OPEN", "SEEK", "READ", "WRITE", "GET", "PUT", "CLOSE",
   "RESTORE", "DELETE", "CHAIN", "SHELL", "BASE", "REM", "END", "BYTE", "INTEGER", "REAL",
   "BOOLEAN", "STRING", "THEN", "TO", "STEP", "DO", "USING", "PROCEDURE", "NOT", "AND", "OR",
   "XOR", "UPDATE", "EXEC", "DIR"}
FunArity(f) == IF f \in B09Fun0 THEN 0 ELSE IF f \in B09Fun1 THEN 1 ELSE IF f \in B09Fun2 THEN 2 ELSE 3

(* ------------------------------ expressions ------------------------------ *)
(* trees are 4-tuples                                                       *)
(*   <<"num", n, d, "int"|"real">>   <<"str", bytes, "", "">>              *)
(*   <<"var", NAME, ty, "">>          <<"idx", NAME, <<subscripts>>, ty>>   *)
(*        (ty = "$" for a string name, "" otherwise)                        *)
(*   <<"call", F, <<args>>, "">>      <<"un", "neg"|"pos"|"NOT", x, "">>    *)
(*   <<"bin", op, l, r>>              <<"par", x, "", "">>                  *)
(*   <<"bad", clause, "", "">>        on a failed parse                     *)
BPrec(op) == CASE op \in {"OR", "XOR"} -> 1 [] op = "AND" -> 2 [] IsRelOp(op) -> 3
               [] op \in {"+", "-"} -> 4 [] op \in {"*", "/"} -> 5 [] op \in {"^", "**"} -> 6
               [] OTHER -> 0
BOpOf(tk) == IF tk.k = "op" THEN tk.v
             ELSE IF tk.k = "id" /\ tk.v \in {"AND", "OR", "XOR"} THEN tk.v ELSE ""
BFail(cl, i) == <<FALSE, N4("bad", cl, "", ""), i>>
TokClause(tk) == IF tk.k = "ustr" THEN "unclosed-string"
                 ELSE IF tk.k = "bad" THEN "stray-token:illegal-character"
                 ELSE IF tk.k = "id" THEN "stray-token:reserved-word:" \o tk.v
                 ELSE "operand-missing"

RECURSIVE BExp(_, _, _), BPrim(_, _), BRest(_, _, _, _), BArgs(_, _, _)
BArgs(t, i, acc) ==          \* e {, e} )   ->  <<ok, <<trees>> | bad, next>>
  LET e == BExp(t, i, 1) IN
  IF ~e[1] THEN e
  ELSE IF e[3] > Len(t) THEN BFail("paren-missing", e[3])
  ELSE IF IsOpT(t[e[3]], ",") THEN BArgs(t, e[3] + 1, Append(acc, e[2]))
  ELSE IF IsOpT(t[e[3]], ")") THEN <<TRUE, Append(acc, e[2]), e[3] + 1>>
  ELSE BFail("paren-missing", e[3])
BPrim(t, i) ==
  IF i > Len(t) THEN BFail("operand-missing", i)
  ELSE LET tk == t[i] IN
    IF tk.k \in {"real", "int"} THEN <<TRUE, N4("num", tk.n, tk.d, tk.k), i + 1>>
    \* a hexadecimal constant is a 16-bit INTEGER: $8000..$FFFF are negative
    ELSE IF tk.k = "hexint" THEN <<TRUE, N4("num", IF tk.n >= 32768 /\ tk.n <= 65535 THEN tk.n - 65536 ELSE tk.n, 1, "int"), i + 1>>
    ELSE IF tk.k = "big" THEN <<TRUE, N4("big", tk.v, "", ""), i + 1>>
    ELSE IF tk.k = "str" THEN <<TRUE, N4("str", tk.s, "", ""), i + 1>>
    ELSE IF IsOpT(tk, "-") \/ IsOpT(tk, "+") THEN
       LET r == BPrim(t, i + 1) IN
       IF r[1] THEN <<TRUE, N4("un", IF tk.v = "-" THEN "neg" ELSE "pos", r[2], ""), r[3]>> ELSE r
    ELSE IF IsKw(tk, "NOT") THEN
       LET r == BPrim(t, i + 1) IN IF r[1] THEN <<TRUE, N4("un", "NOT", r[2], ""), r[3]>> ELSE r
    ELSE IF IsOpT(tk, "(") THEN
       LET r == BExp(t, i + 1, 1) IN
       IF ~r[1] THEN r
       ELSE IF r[3] <= Len(t) /\ IsOpT(t[r[3]], ")") THEN <<TRUE, N4("par", r[2], "", ""), r[3] + 1>>
       ELSE BFail("paren-missing", r[3])
    ELSE IF tk.k = "id" /\ tk.v \in B09Funs THEN
       IF i + 1 <= Len(t) /\ IsOpT(t[i + 1], "(") THEN
          IF FunArity(tk.v) = 0 THEN BFail("stray-token:arguments-to-constant", i)
          ELSE LET a == BArgs(t, i + 2, <<>>) IN
               IF ~a[1] THEN a
               ELSE IF Len(a[2]) # FunArity(tk.v) THEN BFail("operand-missing:builtin-arity:" \o tk.v, i)
               ELSE <<TRUE, N4("call", tk.v, a[2], ""), a[3]>>
       ELSE IF FunArity(tk.v) = 0 THEN <<TRUE, N4("call", tk.v, <<>>, ""), i + 1>>
       ELSE BFail("operand-missing:builtin-args-empty", i)
    ELSE IF tk.k = "id" /\ tk.v \in B09Reserved THEN BFail("stray-token:reserved-word:" \o tk.v, i)
    ELSE IF tk.k = "id" THEN
       IF i + 1 <= Len(t) /\ IsOpT(t[i + 1], "(") THEN
          LET a == BArgs(t, i + 2, <<>>) IN
          IF ~a[1] THEN a ELSE <<TRUE, N4("idx", tk.v, a[2], TyOf(tk)), a[3]>>
       ELSE <<TRUE, N4("var", tk.v, TyOf(tk), ""), i + 1>>
    ELSE BFail(TokClause(tk), i)
BRest(t, lhs, i, minp) ==
  IF i > Len(t) \/ BPrec(BOpOf(t[i])) = 0 \/ BPrec(BOpOf(t[i])) < minp THEN <<TRUE, lhs, i>>
  ELSE LET op == BOpOf(t[i])  r == BExp(t, i + 1, BPrec(op) + 1) IN
       IF ~r[1] THEN r ELSE BRest(t, N4("bin", op, lhs, r[2]), r[3], minp)
BExp(t, i, minp) == LET p == BPrim(t, i) IN IF ~p[1] THEN p ELSE BRest(t, p[2], p[3], minp)

\* an expression that must extend exactly to position j-1
BExpTo(t, i, j) == LET e == BExp(t, i, 1) IN
                   IF ~e[1] THEN e ELSE IF e[3] = j THEN e
                   ELSE IF e[3] <= Len(t) THEN BFail(IF t[e[3]].k \in {"int", "real", "str", "id", "big"} \/ IsOpT(t[e[3]], "(")
                                                     THEN "operator-missing" ELSE TokClause(t[e[3]]), e[3])
                   ELSE BFail("operand-missing", e[3])
IsLValue(tr) == tr[1] \in {"var", "idx"}

(* ------------------------------ statements ------------------------------ *)
(* one instruction per statement                                            *)
I0 == [op |-> "NOP", x |-> "", n |-> 0, e |-> Nil, e2 |-> Nil, e3 |-> Nil, a |-> <<>>, sk |-> "", ln |-> 0]
BadI(cl) == [I0 EXCEPT !.op = "BAD", !.x = cl]
ClauseOf(r) == r[2][2]

\* subscripts of a declaration: int {, int} )
RECURSIVE BDims(_, _, _)
BDims(s, i, acc) ==
  IF i <= Len(s) /\ s[i].k \in {"int", "hexint"} THEN
     IF i + 1 <= Len(s) /\ IsOpT(s[i + 1], ",") THEN BDims(s, i + 2, Append(acc, s[i].n))
     ELSE IF i + 1 <= Len(s) /\ IsOpT(s[i + 1], ")") THEN <<TRUE, Append(acc, s[i].n), i + 2>>
     ELSE <<FALSE, acc, i>>
  ELSE <<FALSE, acc, i>>
\* a type: <<name, size>>; size -1 is the library's STRING<<>> placeholder
BType(s, i) ==
  IF i > Len(s) \/ s[i].k # "id" THEN <<FALSE, <<"", 0>>, i>>
  ELSE IF s[i].v = "STRING" /\ i + 3 <= Len(s) /\ IsOpT(s[i + 1], "[") /\ s[i + 2].k = "int" /\ IsOpT(s[i + 3], "]")
       THEN <<TRUE, <<"STRING", s[i + 2].n>>, i + 4>>
  ELSE IF s[i].v = "STRING" /\ i + 1 <= Len(s) /\ IsOpT(s[i + 1], "<<>>") THEN <<TRUE, <<"STRING", -1>>, i + 2>>
  ELSE IF s[i].v = "STRING" THEN <<TRUE, <<"STRING", 32>>, i + 1>>
  ELSE <<TRUE, <<s[i].v, 0>>, i + 1>>
Decl(name, dims, ty) == <<"decl", name, dims, ty>>
Flush(pend, ty) == [k \in 1..Len(pend) |-> Decl(pend[k][1], pend[k][2], ty)]
\* names [: type] { ; names [: type] }     ->  <<ok, <<decls>>>>
RECURSIVE BDeclList(_, _, _, _)
BDeclList(s, i, pend, out) ==
  IF i > Len(s) THEN <<pend # <<>> \/ out # <<>>, out \o Flush(pend, <<"", 0>>)>>
  ELSE IF s[i].k # "id" \/ s[i].v \in B09Reserved THEN <<FALSE, out>>
  ELSE LET dm == IF i + 1 <= Len(s) /\ IsOpT(s[i + 1], "(") THEN BDims(s, i + 2, <<>>) ELSE <<TRUE, <<>>, i + 1>>
           j == dm[3]
           p2 == Append(pend, <<s[i].v, dm[2]>>) IN
       IF ~dm[1] THEN <<FALSE, out>>
       ELSE IF j > Len(s) THEN <<TRUE, out \o Flush(p2, <<"", 0>>)>>
       ELSE IF IsOpT(s[j], ",") THEN BDeclList(s, j + 1, p2, out)
       ELSE IF IsOpT(s[j], ";") THEN BDeclList(s, j + 1, <<>>, out \o Flush(p2, <<"", 0>>))
       ELSE IF IsOpT(s[j], ":") THEN
            LET ty == BType(s, j + 1) IN
            IF ~ty[1] THEN <<FALSE, out>>
            ELSE IF ty[3] > Len(s) THEN <<TRUE, out \o Flush(p2, ty[2])>>
            ELSE IF IsOpT(s[ty[3]], ";") THEN BDeclList(s, ty[3] + 1, <<>>, out \o Flush(p2, ty[2]))
            ELSE <<FALSE, out>>
       ELSE <<FALSE, out>>

\* list of l-values  v {, v}  up to the end of the statement
RECURSIVE BLvals(_, _, _)
BLvals(s, i, acc) ==
  LET e == BPrim(s, i) IN
  IF ~e[1] THEN <<FALSE, ClauseOf(e), acc>>
  ELSE IF ~IsLValue(e[2]) THEN <<FALSE, "stray-token:not-a-variable", acc>>
  ELSE IF e[3] > Len(s) THEN <<TRUE, "", Append(acc, e[2])>>
  ELSE IF IsOpT(s[e[3]], ",") THEN BLvals(s, e[3] + 1, Append(acc, e[2]))
  ELSE <<FALSE, "operator-missing", acc>>
\* list of expressions e {, e} up to the end of the statement
RECURSIVE BExps(_, _, _)
BExps(s, i, acc) ==
  LET e == BExp(s, i, 1) IN
  IF ~e[1] THEN <<FALSE, ClauseOf(e), acc>>
  ELSE IF e[3] > Len(s) THEN <<TRUE, "", Append(acc, e[2])>>
  ELSE IF IsOpT(s[e[3]], ",") THEN BExps(s, e[3] + 1, Append(acc, e[2]))
  ELSE <<FALSE, IF s[e[3]].k \in {"int", "real", "str", "id"} THEN "operator-missing" ELSE TokClause(s[e[3]]), acc>>
\* line numbers n {, n}
RECURSIVE BLines(_, _, _)
BLines(s, i, acc) ==
  IF i <= Len(s) /\ s[i].k = "int" THEN
     IF i = Len(s) THEN <<TRUE, Append(acc, s[i].n)>>
     ELSE IF IsOpT(s[i + 1], ",") THEN BLines(s, i + 2, Append(acc, s[i].n))
     ELSE <<FALSE, acc>>
  ELSE <<FALSE, acc>>
\* PRINT items: expressions and the separators ; and ,
Sep(c) == N4("sep", c, "", "")
RECURSIVE BPrintItems(_, _, _, _)
BPrintItems(s, i, acc, lastWasExp) ==
  IF i > Len(s) THEN <<TRUE, "", acc>>
  ELSE IF IsOpT(s[i], ";") \/ IsOpT(s[i], ",") THEN BPrintItems(s, i + 1, Append(acc, Sep(s[i].v)), FALSE)
  ELSE IF lastWasExp THEN <<FALSE, "operator-missing:print-items-adjacent", acc>>
  ELSE LET e == BExp(s, i, 1) IN
       IF ~e[1] THEN <<FALSE, ClauseOf(e), acc>>
       ELSE BPrintItems(s, e[3], Append(acc, e[2]), TRUE)

IoHeads == {"OPEN", "CLOSE", "PUT", "GET", "SEEK", "CREATE", "DELETE", "SHELL", "CHD", "CHX",
            "KILL", "WRITE", "CHAIN", "PAUSE"}
OneWord == {"ELSE", "ENDIF", "LOOP", "ENDLOOP", "ENDEXIT", "ENDWHILE", "REPEAT", "RETURN", "END",
            "STOP", "TRON", "TROFF", "RESTORE", "BYE", "DEG", "RAD"}

BStmt(s) ==
  LET h == s[1]  n == Len(s) IN
  IF h.k = "cmt" THEN [I0 EXCEPT !.op = "REM"]
  ELSE IF h.k = "ustr" THEN BadI("unclosed-string")
  ELSE IF h.k = "bad" THEN BadI("stray-token:illegal-character")
  ELSE IF h.k # "id" THEN BadI("line-form:statement-starts-with-" \o h.k)
  ELSE IF \E j \in 1..n : s[j].k = "ustr" THEN BadI("unclosed-string")
  ELSE IF \E j \in 1..n : s[j].k = "bad" THEN BadI("stray-token:illegal-character")
  ELSE IF h.v = "PROCEDURE" THEN
       IF n = 2 /\ s[2].k = "id" THEN [I0 EXCEPT !.op = "PROC", !.x = s[2].v] ELSE BadI("line-form:procedure-header")
  ELSE IF h.v \in {"PARAM", "DIM"} THEN
       LET d == BDeclList(s, 2, <<>>, <<>>) IN
       IF d[1] THEN [I0 EXCEPT !.op = h.v, !.a = d[2]] ELSE BadI("line-form:declaration")
  ELSE IF h.v = "TYPE" THEN
       IF n >= 4 /\ s[2].k = "id" /\ IsOpT(s[3], "=") THEN
          LET d == BDeclList(s, 4, <<>>, <<>>) IN
          IF d[1] THEN [I0 EXCEPT !.op = "TYPE", !.x = s[2].v, !.a = d[2]] ELSE BadI("line-form:declaration")
       ELSE BadI("line-form:declaration")
  ELSE IF h.v = "BASE" THEN
       IF n = 2 /\ s[2].k = "int" /\ s[2].n \in {0, 1} THEN [I0 EXCEPT !.op = "BASE", !.n = s[2].n] ELSE BadI("line-form:base")
  ELSE IF h.v = "IF" THEN
       LET c == BExp(s, 2, 1) IN
       IF ~c[1] THEN BadI(ClauseOf(c))
       ELSE IF c[3] > n \/ ~IsKw(s[c[3]], "THEN") THEN BadI("line-form:missing-THEN")
       ELSE IF c[3] = n THEN [I0 EXCEPT !.op = "IFOPEN", !.e = c[2]]
       ELSE IF c[3] + 1 = n /\ s[n].k = "int" THEN [I0 EXCEPT !.op = "IFGOTO", !.n = s[n].n, !.e = c[2]]
       ELSE BadI("line-form:text-after-THEN")
  ELSE IF h.v = "EXITIF" THEN
       LET c == BExp(s, 2, 1) IN
       IF ~c[1] THEN BadI(ClauseOf(c))
       ELSE IF c[3] = n /\ IsKw(s[n], "THEN") THEN [I0 EXCEPT !.op = "EXITIF", !.e = c[2]] ELSE BadI("line-form:missing-THEN")
  ELSE IF h.v = "WHILE" THEN
       LET c == BExp(s, 2, 1) IN
       IF ~c[1] THEN BadI(ClauseOf(c))
       ELSE IF c[3] = n /\ IsKw(s[n], "DO") THEN [I0 EXCEPT !.op = "WHILE", !.e = c[2]] ELSE BadI("line-form:missing-DO")
  ELSE IF h.v = "UNTIL" THEN
       LET c == BExpTo(s, 2, n + 1) IN IF c[1] THEN [I0 EXCEPT !.op = "UNTIL", !.e = c[2]] ELSE BadI(ClauseOf(c))
  ELSE IF h.v \in OneWord THEN
       IF n = 1 THEN [I0 EXCEPT !.op = h.v]
       ELSE IF h.v = "RESTORE" /\ n = 2 /\ s[2].k = "int" THEN [I0 EXCEPT !.op = "RESTORE", !.n = s[2].n]
       ELSE BadI("stray-token:after-" \o h.v)
  ELSE IF h.v = "FOR" THEN
       IF n >= 6 /\ s[2].k = "id" /\ s[2].v \notin B09Reserved /\ IsOpT(s[3], "=") THEN
          LET a == BExp(s, 4, 1) IN
          IF ~a[1] THEN BadI(ClauseOf(a))
          ELSE IF a[3] > n \/ ~IsKw(s[a[3]], "TO") THEN BadI("line-form:missing-TO")
          ELSE LET b == BExp(s, a[3] + 1, 1) IN
               IF ~b[1] THEN BadI(ClauseOf(b))
               ELSE IF b[3] = n + 1 THEN [I0 EXCEPT !.op = "FOR", !.x = s[2].v, !.e = a[2], !.e2 = b[2], !.e3 = N4("num", 1, 1, "int")]
               ELSE IF IsKw(s[b[3]], "STEP") THEN
                    LET st == BExpTo(s, b[3] + 1, n + 1) IN
                    IF st[1] THEN [I0 EXCEPT !.op = "FOR", !.x = s[2].v, !.e = a[2], !.e2 = b[2], !.e3 = st[2], !.sk = "STEP"]
                    ELSE BadI(ClauseOf(st))
               ELSE BadI("operator-missing")
       ELSE IF n >= 2 /\ s[2].k = "id" /\ s[2].v \in B09Reserved THEN BadI("stray-token:reserved-word-as-variable:" \o s[2].v)
       ELSE BadI("line-form:FOR")
  ELSE IF h.v = "NEXT" THEN
       IF n = 2 /\ s[2].k = "id" /\ s[2].v \notin B09Reserved THEN [I0 EXCEPT !.op = "NEXT", !.x = s[2].v]
       ELSE IF n = 1 THEN BadI("operand-missing:NEXT-without-variable")
       ELSE IF s[2].k = "id" /\ s[2].v \in B09Reserved THEN BadI("stray-token:reserved-word-as-variable:" \o s[2].v)
       ELSE BadI("line-form:NEXT")
  ELSE IF h.v \in {"GOTO", "GOSUB"} THEN
       IF n = 2 /\ s[2].k = "int" THEN [I0 EXCEPT !.op = h.v, !.n = s[2].n] ELSE BadI("line-form:" \o h.v)
  ELSE IF h.v = "ON" THEN
       IF n >= 2 /\ IsKw(s[2], "ERROR") THEN
          IF n = 2 THEN [I0 EXCEPT !.op = "ONERR", !.n = -1]
          ELSE IF n = 4 /\ IsKw(s[3], "GOTO") /\ s[4].k = "int" THEN [I0 EXCEPT !.op = "ONERR", !.n = s[4].n]
          ELSE BadI("line-form:ON-ERROR")
       ELSE LET c == BExp(s, 2, 1) IN
            IF ~c[1] THEN BadI(IF n >= 2 /\ IsOpT(s[2], ":=") THEN "stray-token:reserved-word-as-variable:ON" ELSE ClauseOf(c))
            ELSE IF c[3] > n \/ ~(IsKw(s[c[3]], "GOTO") \/ IsKw(s[c[3]], "GOSUB")) THEN BadI("line-form:ON-GOTO")
            ELSE LET l == BLines(s, c[3] + 1, <<>>) IN
                 IF l[1] THEN [I0 EXCEPT !.op = "ONGO", !.x = s[c[3]].v, !.e = c[2], !.a = l[2]] ELSE BadI("line-form:ON-GOTO-list")
  ELSE IF h.v = "ERROR" THEN
       LET c == BExpTo(s, 2, n + 1) IN IF c[1] THEN [I0 EXCEPT !.op = "ERROR", !.e = c[2]] ELSE BadI(ClauseOf(c))
  ELSE IF h.v = "RUN" THEN
       IF n >= 2 /\ s[2].k = "id" THEN
          IF n = 2 THEN [I0 EXCEPT !.op = "RUN", !.x = s[2].v]
          ELSE IF IsOpT(s[3], "(") THEN
               LET a == BArgs(s, 4, <<>>) IN
               IF ~a[1] THEN BadI(ClauseOf(a))
               ELSE IF a[3] = n + 1 THEN [I0 EXCEPT !.op = "RUN", !.x = s[2].v, !.a = a[2]]
               ELSE BadI("stray-token:after-RUN")
          ELSE BadI("stray-token:after-RUN")
       ELSE BadI("line-form:RUN")
  ELSE IF h.v = "PRINT" THEN
       IF n >= 2 /\ IsOpT(s[2], "#") THEN [I0 EXCEPT !.op = "IO", !.x = "PRINT#"]
       ELSE IF n >= 2 /\ IsKw(s[2], "USING") THEN [I0 EXCEPT !.op = "IO", !.x = "PRINTUSING"]
       ELSE LET p == BPrintItems(s, 2, <<>>, FALSE) IN
            IF p[1] THEN [I0 EXCEPT !.op = "PRINT", !.a = p[3]] ELSE BadI(p[2])
  ELSE IF h.v = "INPUT" THEN
       IF n >= 2 /\ IsOpT(s[2], "#") THEN [I0 EXCEPT !.op = "IO", !.x = "INPUT#"]
       ELSE IF n >= 4 /\ s[2].k = "str" /\ IsOpT(s[3], ",") THEN
            LET l == BLvals(s, 4, <<>>) IN
            IF l[1] THEN [I0 EXCEPT !.op = "INPUT", !.e = N4("str", s[2].s, "", ""), !.a = l[3]] ELSE BadI(l[2])
       ELSE LET l == BLvals(s, 2, <<>>) IN
            IF l[1] THEN [I0 EXCEPT !.op = "INPUT", !.e = Nil, !.a = l[3]] ELSE BadI(l[2])
  ELSE IF h.v = "READ" THEN
       IF n >= 2 /\ IsOpT(s[2], "#") THEN [I0 EXCEPT !.op = "IO", !.x = "READ#"]
       ELSE LET l == BLvals(s, 2, <<>>) IN
            IF l[1] THEN [I0 EXCEPT !.op = "READ", !.a = l[3]] ELSE BadI(l[2])
  ELSE IF h.v = "DATA" THEN
       LET l == BExps(s, 2, <<>>) IN IF l[1] THEN [I0 EXCEPT !.op = "DATA", !.a = l[3]] ELSE BadI(l[2])
  ELSE IF h.v = "POKE" THEN
       LET l == BExps(s, 2, <<>>) IN
       IF ~l[1] THEN BadI(l[2])
       ELSE IF Len(l[3]) = 2 THEN [I0 EXCEPT !.op = "POKE", !.e = l[3][1], !.e2 = l[3][2]] ELSE BadI("operand-missing:POKE")
  ELSE IF h.v \in IoHeads THEN [I0 EXCEPT !.op = "IO", !.x = h.v]
  ELSE IF h.v = "REM" THEN [I0 EXCEPT !.op = "REM"]
  ELSE LET k == IF h.v = "LET" THEN 2 ELSE 1 IN
       IF k > n THEN BadI("operand-missing")
       ELSE IF s[k].k = "id" /\ s[k].v \in B09Reserved THEN
            BadI(IF k + 1 <= n /\ (IsOpT(s[k + 1], ":=") \/ IsOpT(s[k + 1], "="))
                 THEN "stray-token:reserved-word-as-variable:" \o s[k].v
                 ELSE "stray-token:reserved-word:" \o s[k].v)
       ELSE LET l == BPrim(s, k) IN
            IF ~l[1] THEN BadI(ClauseOf(l))
            ELSE IF ~IsLValue(l[2]) THEN BadI("line-form:not-a-statement")
            ELSE IF l[3] > n THEN BadI("line-form:not-a-statement")
            ELSE IF ~(IsOpT(s[l[3]], ":=") \/ IsOpT(s[l[3]], "=")) THEN BadI("line-form:not-a-statement")
            ELSE LET e == BExpTo(s, l[3] + 1, n + 1) IN
                 IF e[1] THEN [I0 EXCEPT !.op = "ASSIGN", !.e = e[2], !.e2 = l[2]] ELSE BadI(ClauseOf(e))

(* ------------------------- lines -> instruction list ------------------------- *)
SplitStmts(t) ==
  LET acc == FoldLeft(LAMBDA a, tk :
                 IF a.cmt THEN a
                 ELSE IF tk.k = "cmt" THEN [a EXCEPT !.cur = Append(@, tk), !.cmt = TRUE]
                 ELSE IF IsOpT(tk, "\\") THEN [a EXCEPT !.done = Append(@, a.cur), !.cur = <<>>]
                 ELSE [a EXCEPT !.cur = Append(@, tk)],
               [done |-> <<>>, cur |-> <<>>, cmt |-> FALSE], t)
  IN Append(acc.done, acc.cur)
\* "IF c THEN stmt", "ELSE stmt", "EXITIF c THEN stmt", "WHILE c DO stmt": the block keyword part
\* and the statement that follows it on the same line are two statements
FirstKwPos(s, w) == LET c == { j \in 1..Len(s) : IsKw(s[j], w) } IN
                    IF c = {} THEN 0 ELSE CHOOSE j \in c : \A q \in c : j <= q
Explode(s) ==
  IF s = <<>> \/ s[1].k # "id" THEN << s >>
  ELSE IF s[1].v \in {"IF", "EXITIF"} THEN
       LET p == FirstKwPos(s, "THEN") IN
       IF p = 0 \/ p = Len(s) \/ (s[1].v = "IF" /\ p + 1 = Len(s) /\ s[p + 1].k = "int") THEN << s >>
       ELSE << SubSeq(s, 1, p), SubSeq(s, p + 1, Len(s)) >>
  ELSE IF s[1].v = "WHILE" THEN
       LET p == FirstKwPos(s, "DO") IN
       IF p = 0 \/ p = Len(s) THEN << s >> ELSE << SubSeq(s, 1, p), SubSeq(s, p + 1, Len(s)) >>
  ELSE IF s[1].v = "ELSE" /\ Len(s) > 1 THEN << <<s[1]>>, Tail(s) >>
  ELSE << s >>
\* a BASIC09 line is [label] statement { \ statement }; an empty statement is
\* only tolerated as the whole (blank) line
BLineCode(t, ln) ==
  LET lab == IF t # <<>> /\ t[1].k = "int" THEN t[1].n ELSE -1
      body == IF lab >= 0 THEN Tail(t) ELSE t
      ss == FoldLeft(LAMBDA acc, st : acc \o (IF st = <<>> THEN << st >> ELSE Explode(st)), <<>>, SplitStmts(body)) IN
  [lab |-> lab,
   code |-> IF body = <<>> THEN (IF lab >= 0 THEN << [I0 EXCEPT !.ln = ln] >> ELSE <<>>)
            ELSE [j \in 1..Len(ss) |->
                    IF ss[j] = <<>> THEN [BadI("line-form:empty-statement") EXCEPT !.ln = ln]
                    ELSE [BStmt(ss[j]) EXCEPT !.ln = ln]]]
BList(lines) ==
  FoldLeft(LAMBDA acc, k :
      LET lc == BLineCode(lines[k], k) IN
      [code |-> acc.code \o lc.code,
       lab |-> IF lc.lab >= 0 /\ lc.lab \notin DOMAIN acc.lab THEN acc.lab @@ (lc.lab :> Len(acc.code) + 1) ELSE acc.lab,
       dup |-> IF lc.lab >= 0 /\ lc.lab \in DOMAIN acc.lab THEN acc.dup \cup {lc.lab} ELSE acc.dup],
    [code |-> <<>>, lab |-> <<>>, dup |-> {}], [k \in 1..Len(lines) |-> k])

(* ------------------------------ block matching ------------------------------ *)
Openers == {"IFOPEN", "LOOP", "EXITIF", "WHILE", "REPEAT", "FOR"}
LoopKinds == {"LOOP", "WHILE", "REPEAT", "FOR"}
LastIdx(st, kinds) == LET c == { i \in 1..Len(st) : st[i].k \in kinds } IN
                      IF c = {} THEN 0 ELSE CHOOSE i \in c : \A j \in c : j <= i
Resolve(code) ==
  LET n == Len(code)
      r == FoldLeft(LAMBDA a, i :
        IF a.err # "" THEN a
        ELSE
        LET ins == code[i]
            st == a.st
            top == IF st = <<>> THEN [k |-> "", i |-> 0, ex |-> <<>>] ELSE st[Len(st)]
            pop == SubSeq(st, 1, Len(st) - 1)
            E(cl) == [a EXCEPT !.err = cl, !.at = i]
            Close(loopStart, after) ==   \* patch the ENDEXITs collected for this loop
               [j \in 1..n |-> IF \E x \in 1..Len(top.ex) : top.ex[x] = j THEN after ELSE a.tgt[j]] IN
        CASE ins.op = "BAD" -> E(ins.x)
          [] ins.op = "PROC" -> IF st # <<>> THEN E("missing-closer:" \o top.k) ELSE a
          [] ins.op = "IFOPEN" -> [a EXCEPT !.st = Append(st, [k |-> "IF", i |-> i, ex |-> <<>>])]
          [] ins.op = "ELSE" -> IF top.k = "IF" THEN [a EXCEPT !.tgt[top.i] = i + 1, !.st = Append(pop, [k |-> "ELSE", i |-> i, ex |-> <<>>])]
                                ELSE E("block-order:ELSE-in-" \o top.k)
          [] ins.op = "ENDIF" -> IF top.k \in {"IF", "ELSE"} THEN [a EXCEPT !.tgt[top.i] = i + 1, !.st = pop]
                                 ELSE E("block-order:ENDIF-in-" \o top.k)
          [] ins.op = "LOOP" -> [a EXCEPT !.st = Append(st, [k |-> "LOOP", i |-> i, ex |-> <<>>])]
          [] ins.op = "REPEAT" -> [a EXCEPT !.st = Append(st, [k |-> "REPEAT", i |-> i, ex |-> <<>>])]
          [] ins.op = "WHILE" -> [a EXCEPT !.st = Append(st, [k |-> "WHILE", i |-> i, ex |-> <<>>])]
          [] ins.op = "FOR" -> [a EXCEPT !.st = Append(st, [k |-> "FOR", i |-> i, ex |-> <<>>])]
          [] ins.op = "EXITIF" -> IF LastIdx(st, LoopKinds) = 0 THEN E("block-order:EXITIF-outside-loop")
                                  ELSE [a EXCEPT !.st = Append(st, [k |-> "EXITIF", i |-> i, ex |-> <<>>])]
          [] ins.op = "ENDEXIT" -> IF top.k = "EXITIF" THEN
                                      LET l == LastIdx(pop, LoopKinds) IN
                                      [a EXCEPT !.tgt[top.i] = i + 1, !.st = [pop EXCEPT ![l].ex = Append(@, i)]]
                                   ELSE E("block-order:ENDEXIT-in-" \o top.k)
          [] ins.op = "ENDLOOP" -> IF top.k = "LOOP" THEN [a EXCEPT !.tgt = [Close(top.i, i + 1) EXCEPT ![i] = top.i + 1], !.st = pop]
                                   ELSE E("block-order:ENDLOOP-in-" \o top.k)
          [] ins.op = "ENDWHILE" -> IF top.k = "WHILE" THEN [a EXCEPT !.tgt = [Close(top.i, i + 1) EXCEPT ![i] = top.i, ![top.i] = i + 1], !.st = pop]
                                    ELSE E("block-order:ENDWHILE-in-" \o top.k)
          [] ins.op = "UNTIL" -> IF top.k = "REPEAT" THEN [a EXCEPT !.tgt = [Close(top.i, i + 1) EXCEPT ![i] = top.i + 1], !.st = pop]
                                 ELSE E("block-order:UNTIL-in-" \o top.k)
          [] ins.op = "NEXT" -> IF top.k = "FOR" THEN
                                   IF code[top.i].x # ins.x THEN E("block-order:NEXT-names-other-variable")
                                   ELSE [a EXCEPT !.tgt = [Close(top.i, i + 1) EXCEPT ![i] = top.i, ![top.i] = i], !.st = pop]
                                ELSE E("block-order:NEXT-in-" \o top.k)
          [] OTHER -> a,
      [st |-> <<>>, tgt |-> [j \in 1..n |-> 0], err |-> "", at |-> 0], [i \in 1..n |-> i])
      err == IF r.err # "" THEN r.err ELSE IF r.st # <<>> THEN "missing-closer:" \o r.st[Len(r.st)].k ELSE ""
  IN [ok |-> err = "", err |-> err,
      at |-> IF r.err # "" THEN r.at ELSE IF r.st # <<>> THEN r.st[Len(r.st)].i ELSE 0,
      code |-> [i \in 1..n |->
          LET ins == code[i] IN
          CASE ins.op \in {"IFOPEN", "EXITIF", "WHILE"} -> [ins EXCEPT !.op = "JF", !.n = r.tgt[i], !.sk = ins.op]
            [] ins.op \in {"ELSE", "ENDEXIT", "ENDLOOP", "ENDWHILE"} -> [ins EXCEPT !.op = "JMP", !.n = r.tgt[i], !.sk = ins.op]
            [] ins.op = "UNTIL" -> [ins EXCEPT !.op = "JF", !.n = r.tgt[i], !.sk = "UNTIL"]
            [] ins.op \in {"ENDIF", "LOOP", "REPEAT"} -> [ins EXCEPT !.op = "NOP", !.sk = ins.op]
            [] ins.op \in {"FOR", "NEXT"} -> [ins EXCEPT !.n = r.tgt[i]]
            [] OTHER -> ins]]

\* one procedure (or a headerless program): parse, match blocks
BProg(lines) ==
  LET l == BList(lines)  r == Resolve(l.code) IN
  [ok |-> r.ok, err |-> r.err, at |-> r.at, errln |-> IF r.at > 0 /\ r.at <= Len(l.code) THEN l.code[r.at].ln ELSE 0,
   code |-> r.code, lab |-> l.lab, dup |-> l.dup]

\* a file of procedures: split at the PROCEDURE headers
IsProcLine(t) == Len(t) >= 1 /\ IsKw(t[1], "PROCEDURE")
ProcStarts(lines) == SelectSeq([k \in 1..Len(lines) |-> k], LAMBDA k : IsProcLine(lines[k]))
BFile(lines) ==
  LET ps == ProcStarts(lines) IN
  [k \in 1..Len(ps) |->
     LET from == ps[k]
         to == IF k < Len(ps) THEN ps[k + 1] - 1 ELSE Len(lines)
         body == SubSeq(lines, from, to)
         p == BProg(body) IN
     [name |-> IF Len(lines[from]) >= 2 THEN lines[from][2].v ELSE "", first |-> from, last |-> to, prog |-> p]]
=============================================================================
