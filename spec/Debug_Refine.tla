---------------------------- MODULE Debug_Refine ----------------------------
(* Development aid: print both runs of one case (not used by any check). *)
EXTENDS Refine
Cases == JsonDeserialize(IOEnv.CASES)
Show(cs, k) ==
  LET ps == Parsed(cs)
      sd == Run(ps.dp, "decb", St0(cs.scripts[k].inp, cs.scripts[k].dev), cs.fuel)
      sb == Run(ps.bp, "b09", Load(ps.bp.code, St0(cs.scripts[k].inp, cs.scripts[k].dev)), 4 * cs.fuel + 200) IN
  /\ PrintT(<<"SRC-PARSE", ps.sok, ps.serr, "TGT-PARSE", ps.tok, ps.terr, ps.tln>>)
  /\ PrintT(<<"SRC status", sd.status, sd.why, "pc", sd.pc>>)
  /\ PrintT(<<"SRC obs", sd.obs>>)
  /\ PrintT(<<"SRC calls", sd.calls>>)
  /\ PrintT(<<"TGT status", sb.status, sb.why, "pc", sb.pc, sb.rdundef>>)
  /\ PrintT(<<"TGT obs", sb.obs>>)
  /\ PrintT(<<"TGT calls", sb.calls>>)
  /\ PrintT(<<"VERDICT", JudgeRun(ps, cs, cs.scripts[k].inp, cs.scripts[k].dev)>>)
ASSUME Show(Cases[1], 1)
VARIABLE x
Init == x = 0
Next == UNCHANGED x
=============================================================================
