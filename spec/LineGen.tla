------------------------------- MODULE LineGen -------------------------------
(***************************************************************************)
(* Encoder machine for the line-oriented compressed formats:               *)
(*                                                                         *)
(* CM3   type byte (bit 7: two pages of 192 lines, bit 0: no pattern       *)
(*       block), 16 palette bytes, 2 rate bytes, 8 cycle bytes, 2 flag     *)
(*       bytes, [243 pattern bytes]; per page a line count, per line a     *)
(*       control byte: >= 128 -> 160 raw bytes; < 128 -> 20 bytes of       *)
(*       "differs from the byte to the left" flags (MSB first; the left    *)
(*       neighbour of column 0 is the last byte of the previous line),     *)
(*       `control` bytes of "differs from the byte above" flags for the    *)
(*       bytes that differ from the left one, then the literal bytes.      *)
(*       The line buffer carries over lines and pages.                     *)
(* VEF   0x80, type, 16 palette bytes, then 400 records: a length byte and *)
(*       that many bytes of groups: control > 128 -> next byte repeated    *)
(*       control-128 times, control <= 128 -> that many literal bytes;     *)
(*       the record is cut to its nominal length (80 / 80 / 40 bytes).     *)
(*                                                                         *)
(* One action per line: the content of the line (constant, two halves,     *)
(* noise, copy of the previous line, previous line with one byte changed)  *)
(* and the coding strategy are chosen nondeterministically.  img is the    *)
(* abstract image, out the file body.                                      *)
(***************************************************************************)
EXTENDS Img
CONSTANTS Format,            \* "CM3" | "VEF"
          W,                 \* bytes per line / record (160; 80 or 40)
          NLines,            \* lines per page (192) / records (400)
          VefType, PalSet, Vals, Strategies, Pages, Motifs, Kinds
VARIABLES img, out, prev, lines, page, done, pal, pages, motifs
vars == <<img, out, prev, lines, page, done, pal, pages, motifs>>

Palette(k) == [i \in 1..16 |-> (k + 4 * i) % 64]
AddRun(runs, v, n) == IF n <= 0 THEN runs
                      ELSE IF runs # <<>> /\ runs[Len(runs)][1] = v THEN [runs EXCEPT ![Len(runs)] = <<v, @[2] + n>>]
                      ELSE Append(runs, <<v, n>>)
AddBytes(runs, bs) == FoldLeft(LAMBDA r, b : AddRun(r, b, 1), runs, bs)
HeaderBytes ==
  IF Format = "CM3" THEN <<(IF pages = 2 THEN 128 ELSE 0) + (IF motifs THEN 0 ELSE 1)>> \o pal \o <<3, 4>> \o [i \in 1..8 |-> i] \o <<128, 0>>
                         \o (IF motifs THEN [i \in 1..243 |-> (11 * i) % 256] ELSE <<>>)
  ELSE <<128, VefType>> \o pal

Init == /\ img = <<>> /\ out = <<>> /\ prev = [i \in 1..W |-> 0] /\ lines = 0 /\ page = 1 /\ done = FALSE
        /\ \E k \in PalSet : pal = Palette(k)
        /\ pages \in Pages /\ motifs \in Motifs

(* ---------------- line contents ---------------- *)
Contents == {"const", "halves", "noise", "same", "poke", "stripes"}
Content(kind, v1, v2, k) ==
  CASE kind = "const" -> [i \in 1..W |-> v1]
    [] kind = "halves" -> [i \in 1..W |-> IF i <= k THEN v1 ELSE v2]
    [] kind = "noise" -> [i \in 1..W |-> (v1 * i + v2 + 7 * lines) % 256]
    [] kind = "same" -> prev
    [] kind = "poke" -> [prev EXCEPT ![k] = v1]
    [] OTHER -> [i \in 1..W |-> IF i % 2 = 0 THEN v1 ELSE v2]

(* ---------------- CM3 line coding ---------------- *)
PackBits(bits) ==      \* MSB first, padded with zeros
  LET n == (Len(bits) + 7) \div 8 IN
  [b \in 1..n |-> FoldLeft(LAMBDA a, q : 2 * a + (IF 8 * (b - 1) + q <= Len(bits) THEN bits[8 * (b - 1) + q] ELSE 0), 0, [q \in 1..8 |-> q])]
\* choice per column: "L" same as left, "U" same as above, "X" literal
Cm3Choices(line, strategy) ==
  [x \in 1..W |->
     LET left == IF x = 1 THEN prev[W] ELSE line[x - 1]
         canL == line[x] = left  canU == line[x] = prev[x] IN
     CASE strategy = "prefer-left" -> IF canL THEN "L" ELSE IF canU THEN "U" ELSE "X"
       [] strategy = "prefer-up" -> IF canU THEN "U" ELSE IF canL THEN "L" ELSE "X"
       [] strategy = "literal" -> "X"
       [] OTHER -> IF x % 2 = 0 THEN (IF canL THEN "L" ELSE IF canU THEN "U" ELSE "X") ELSE (IF canU THEN "U" ELSE "X")]
Cm3Line(line, strategy) ==
  IF strategy = "raw" THEN <<128 + (lines % 100)>> \o line
  ELSE LET ch == Cm3Choices(line, strategy)
           b1 == [x \in 1..W |-> IF ch[x] = "L" THEN 0 ELSE 1]
           nonL == SelectSeq([x \in 1..W |-> x], LAMBDA x : ch[x] # "L")
           b2 == [q \in 1..Len(nonL) |-> IF ch[nonL[q]] = "U" THEN 0 ELSE 1]
           lits == [q \in 1..Len(SelectSeq(nonL, LAMBDA x : ch[x] = "X")) |-> line[SelectSeq(nonL, LAMBDA x : ch[x] = "X")[q]]]
           p2 == PackBits(b2) IN
       <<Len(p2)>> \o PackBits(b1) \o p2 \o lits

(* ---------------- VEF record coding ---------------- *)
\* maximal runs of the line as <<value, length>>
RunsOf(line) == FoldLeft(LAMBDA r, b : AddRun(r, b, 1), <<>>, line)
RECURSIVE SplitRun(_, _, _)
SplitRun(v, n, maxn) == IF n <= maxn THEN <<<<v, n>>>> ELSE <<<<v, maxn>>>> \o SplitRun(v, n - maxn, maxn)
VefGroups(line, strategy) ==
  CASE strategy = "literal" -> (IF W <= 128 THEN <<W>> \o line ELSE <<128>> \o SubSeq(line, 1, 128) \o <<W - 128>> \o SubSeq(line, 129, W))
    [] strategy = "runs" -> FoldLeft(LAMBDA g, r : g \o FoldLeft(LAMBDA h, p : h \o <<128 + p[2], p[1]>>, <<>>, SplitRun(r[1], r[2], 127)), <<>>, RunsOf(line))
    [] strategy = "split-runs" -> FoldLeft(LAMBDA g, r : g \o FoldLeft(LAMBDA h, p : h \o <<128 + p[2], p[1]>>, <<>>, SplitRun(r[1], r[2], 3)), <<>>, RunsOf(line))
    [] strategy = "mixed" ->       \* runs of length 1 or 2 as literal groups, longer ones as repeat groups
         FoldLeft(LAMBDA g, r : g \o (IF r[2] <= 2 THEN <<r[2]>> \o [q \in 1..r[2] |-> r[1]]
                                     ELSE FoldLeft(LAMBDA h, p : h \o <<128 + p[2], p[1]>>, <<>>, SplitRun(r[1], r[2], 127))), <<>>, RunsOf(line))
    [] OTHER ->                    \* "overshoot": the last group repeats further than the record is long; the decoder cuts it
         LET rs == RunsOf(line)  last == rs[Len(rs)] IN
         FoldLeft(LAMBDA g, r : g \o FoldLeft(LAMBDA h, p : h \o <<128 + p[2], p[1]>>, <<>>, SplitRun(r[1], r[2], 127)), <<>>, SubSeq(rs, 1, Len(rs) - 1))
         \o FoldLeft(LAMBDA h, p : h \o <<128 + p[2], p[1]>>, <<>>, SplitRun(last[1], IF last[2] + 5 <= 127 THEN last[2] + 5 ELSE last[2], 127))
VefRecord(line, strategy) == LET g == VefGroups(line, strategy) IN
                             IF Len(g) <= 255 THEN <<Len(g)>> \o g ELSE LET h == VefGroups(line, "runs") IN <<Len(h)>> \o h

AddLine(kind, v1, v2, k, strategy) ==
  /\ ~done /\ lines < NLines
  /\ LET line == Content(kind, v1, v2, k)
         prefix == IF Format = "CM3" /\ lines = 0 THEN <<NLines>> ELSE <<>>
         coded == IF Format = "CM3" THEN Cm3Line(line, strategy) ELSE VefRecord(line, strategy) IN
     /\ img' = AddBytes(img, line)
     /\ out' = AddBytes(out, prefix \o coded)
     /\ prev' = line
  /\ lines' = lines + 1
  /\ UNCHANGED <<page, done, pal, pages, motifs>>
NextPage == /\ ~done /\ lines = NLines /\ page < pages /\ page' = page + 1 /\ lines' = 0
            /\ UNCHANGED <<img, out, prev, done, pal, pages, motifs>>
Finish == /\ ~done /\ lines = NLines /\ page = pages /\ done' = TRUE
          /\ UNCHANGED <<img, out, prev, lines, page, pal, pages, motifs>>
Next == \/ \E kind \in Contents \cap Kinds, v1 \in Vals, v2 \in Vals, k \in {1, 2, W \div 2, W - 1, W}, s \in Strategies : AddLine(kind, v1, v2, k, s)
        \/ NextPage \/ Finish
Spec == Init /\ [][Next]_vars

(* ---------------- decoders (folds), for the toy-size round trip ---------------- *)
\* VEF: one record's groups -> bytes, cut to W
VefUnsquash(groups) ==
  LET r == FoldLeft(LAMBDA s, b :
        IF s.mode = "ctl" THEN (IF b > 128 THEN [s EXCEPT !.mode = "rep", !.n = b - 128] ELSE IF b = 0 THEN s ELSE [s EXCEPT !.mode = "lit", !.n = b])
        ELSE IF s.mode = "rep" THEN [s EXCEPT !.mode = "ctl", !.acc = @ \o [q \in 1..s.n |-> b]]
        ELSE [s EXCEPT !.acc = Append(@, b), !.n = @ - 1, !.mode = IF s.n = 1 THEN "ctl" ELSE "lit"],
        [mode |-> "ctl", n |-> 0, acc |-> <<>>], groups) IN
  SubSeq(r.acc, 1, IF Len(r.acc) < W THEN Len(r.acc) ELSE W)
VefDecode(bytes) ==
  FoldLeft(LAMBDA s, k :
     IF s.pos > Len(bytes) THEN s
     ELSE LET n == bytes[s.pos] IN [pos |-> s.pos + 1 + n, acc |-> s.acc \o VefUnsquash(SubSeq(bytes, s.pos + 1, s.pos + n))],
     [pos |-> 1, acc |-> <<>>], [k \in 1..NLines |-> k]).acc
\* CM3: body after the header
Cm3Decode(bytes) ==
  LET line(st) ==     \* decode one line starting at st.pos with buffer st.buf
        LET contr == bytes[st.pos] IN
        IF contr >= 128 THEN [pos |-> st.pos + 1 + W, buf |-> SubSeq(bytes, st.pos + 1, st.pos + W), acc |-> st.acc \o SubSeq(bytes, st.pos + 1, st.pos + W), left |-> st.left]
        ELSE LET nb1 == W \div 8
                 b1 == SubSeq(bytes, st.pos + 1, st.pos + nb1)
                 b2 == SubSeq(bytes, st.pos + nb1 + 1, st.pos + nb1 + contr)
                 r == FoldLeft(LAMBDA s, x :
                        LET f1 == Bit(b1[((x - 1) \div 8) + 1], 7 - ((x - 1) % 8)) IN
                        IF f1 = 0 THEN [s EXCEPT !.buf[x] = IF x = 1 THEN s.buf[W] ELSE s.buf[x - 1]]
                        ELSE LET f2 == Bit(b2[(s.y \div 8) + 1], 7 - (s.y % 8)) IN
                             IF f2 = 0 THEN [s EXCEPT !.y = @ + 1] ELSE [s EXCEPT !.y = @ + 1, !.buf[x] = bytes[s.lp], !.lp = @ + 1],
                        [buf |-> st.buf, y |-> 0, lp |-> st.pos + nb1 + contr + 1], [x \in 1..W |-> x]) IN
             [pos |-> r.lp, buf |-> r.buf, acc |-> st.acc \o r.buf, left |-> st.left]
      pageDec(st) == LET n == bytes[st.pos] IN FoldLeft(LAMBDA s, k : line(s), [st EXCEPT !.pos = @ + 1], [k \in 1..n |-> k]) IN
  FoldLeft(LAMBDA s, p : pageDec(s), [pos |-> 1, buf |-> [i \in 1..W |-> 0], acc |-> <<>>, left |-> 0], [p \in 1..pages |-> p]).acc
Decoded == IF Format = "CM3" THEN Cm3Decode(Expand(out)) ELSE VefDecode(Expand(out))
RoundTrip == done => Decoded = Expand(img)
Complete == done => NBytes(img) = W * NLines * pages
EmitDone == done => PrintT(<<"GEN", pal, 0, img, HeaderBytes, out>>)
=============================================================================
