----------------------------- MODULE Trace_C14 -----------------------------
(***************************************************************************)
(* C14: every emitted runtime call matches the declared interface of its   *)
(* procedure.  Signatures are read from the PARAM lines of the library     *)
(* text of the working tree (module Lib).  For every RUN statement of the  *)
(* emitted program -- and, in the case "library", of the library itself -- *)
(*   defined   the procedure exists in the library or is an OS-9 module    *)
(*   arity     as many arguments as PARAM declares                         *)
(*   class     string where a string is declared, numeric where a number,  *)
(*             a record variable of the same type where a record           *)
(*   result    the translator's result position receives a variable        *)
(* and the TYPE statements of caller and callee agree field by field.      *)
(***************************************************************************)
EXTENDS Refine
Cases == JsonDeserialize(IOEnv.CASES)

SystemModules == {"GFX", "GFX2", "SYSCALL", "INKEY"}
NumTypes == {"REAL", "INTEGER", "BYTE", ""}
ClassOfType(ty) == IF ty[1] = "STRING" THEN "str" ELSE IF ty[1] = "BOOLEAN" THEN "bool" ELSE IF ty[1] \in NumTypes THEN "num" ELSE "rec:" \o ty[1]
StrResult == {"STR$", "CHR$", "LEFT$", "RIGHT$", "MID$", "TRIM$", "DATE$"}
\* declared variables of one procedure: name -> class (from DIM and PARAM); everything else is implicit
DeclMap(code) ==
  FoldLeft(LAMBDA m, ins : IF ins.op \in {"DIM", "PARAM"} THEN
                              FoldLeft(LAMBDA m2, d : IF d[4][1] = "" \/ d[2] \in DOMAIN m2 THEN m2 ELSE m2 @@ (d[2] :> ClassOfType(d[4])), m, ins.a)
                           ELSE m, EmptyF, code)
RECURSIVE ClassOf(_, _)
ClassOf(tr, dm) ==
  CASE tr[1] = "num" -> "num" [] tr[1] = "big" -> "num" [] tr[1] = "str" -> "str"
    [] tr[1] = "var" -> IF tr[2] \in DOMAIN dm THEN dm[tr[2]]
                        \* without the standard prologue the runtime records are declared by the caller's own prologue
                        ELSE IF tr[2] = "DISPLAY" THEN "rec:DISPLAY_T" ELSE IF tr[2] = "PLAY" THEN "rec:PLAY_T"
                        ELSE IF tr[3] = "$" THEN "str" ELSE "num"
    [] tr[1] = "idx" -> IF tr[2] \in DOMAIN dm THEN dm[tr[2]] ELSE IF tr[4] = "$" THEN "str" ELSE "num"
    [] tr[1] = "par" -> ClassOf(tr[2], dm)
    [] tr[1] = "un" -> IF tr[2] = "NOT" THEN "bool" ELSE "num"
    [] tr[1] = "bin" -> IF IsRelOp(tr[2]) \/ tr[2] \in {"AND", "OR", "XOR"} THEN "bool"
                        ELSE IF tr[2] = "+" /\ ClassOf(tr[3], dm) = "str" THEN "str" ELSE "num"
    [] tr[1] = "call" -> IF tr[2] \in StrResult THEN "str" ELSE IF tr[2] \in {"TRUE", "FALSE"} THEN "bool" ELSE "num"
    [] OTHER -> "?"
\* a record argument must be a plain variable of that record type; numeric and string classes must agree;
\* BASIC09 passes BYTE/INTEGER/REAL interchangeably only by value semantics it does not have -- the specification
\* is permissive there and compares the class only
Compatible(want, got) == want = got \/ (want = "bool" /\ got = "bool")

TypeDecls(code) == FoldLeft(LAMBDA m, ins : IF ins.op = "TYPE" /\ ins.x \notin DOMAIN m THEN m @@ (ins.x :> ins.a) ELSE m, EmptyF, code)

V14(ok, clause, key, detail) == [ok |-> ok, clause |-> clause, key |-> key, detail |-> detail]
\* check all RUN statements of one procedure body; returns the first failing verdict or ok
CheckRuns(code, who) ==
  LET dm == DeclMap(code)
      runs == SelectSeq([q \in 1..Len(code) |-> q], LAMBDA q : code[q].op = "RUN")
      Bad(q) ==
        LET ins == code[q]  p == ins.x  n == Len(ins.a) IN
        IF p \in SystemModules THEN
             (IF p = "INKEY" /\ ~(n = 1 /\ IsLValue(ins.a[1]) /\ ClassOf(ins.a[1], dm) = "str") THEN "class:INKEY:result-not-a-string-variable" ELSE "")
        ELSE IF p \notin LibNames THEN "defined:" \o p
        ELSE LET ps == ParamDecls(LibProc(p).prog.code) IN
             IF Len(ps) # n THEN "arity:" \o p \o ":passed=" \o ToString(n) \o ":declared=" \o ToString(Len(ps))
             ELSE LET c == { k \in 1..n : ~Compatible(ClassOfType(ps[k][4]), ClassOf(ins.a[k], dm)) } IN
                  IF c # {} THEN LET k == CHOOSE x \in c : \A y \in c : x <= y IN
                       "class:" \o p \o ":" \o ps[k][2] \o ":declared=" \o ClassOfType(ps[k][4]) \o ":passed=" \o ClassOf(ins.a[k], dm)
                  ELSE IF CallFun(p) # "" /\ ~IsLValue(ins.a[n]) THEN "result:" \o p \o ":not-a-variable"
                  ELSE ""
      bad == SelectSeq(runs, LAMBDA q : Bad(q) # "") IN
  IF bad = <<>> THEN V14(TRUE, "ok", "", ToString(Len(runs)))
  ELSE V14(FALSE, "interface", Bad(bad[1]), who \o " line " \o ToString(code[bad[1]].ln))
\* TYPE statements of a caller against every library procedure that declares the same type name
CheckTypes(code, who) ==
  LET mine == TypeDecls(code)
      clash == { <<t, k>> \in (DOMAIN mine) \X (1..Len(LibFile)) :
                   LET theirs == TypeDecls(LibFile[k].prog.code) IN t \in DOMAIN theirs /\ theirs[t] # mine[t] } IN
  IF clash = {} THEN V14(TRUE, "ok", "", "")
  ELSE LET c == CHOOSE x \in clash : TRUE IN V14(FALSE, "record-type", "record-type:" \o c[1] \o ":differs-from:" \o LibFile[c[2]].name, who)

Verdict(cs) ==
  IF cs.kind = "library" THEN
     LET res == [k \in 1..Len(LibFile) |-> IF ~LibFile[k].prog.ok THEN V14(FALSE, "parses", "library:parses:" \o LibFile[k].prog.err, LibFile[k].name)
                                          ELSE LET r == CheckRuns(LibFile[k].prog.code, LibFile[k].name) IN
                                               IF ~r.ok THEN [r EXCEPT !.key = "library:" \o @] ELSE
                                               LET t == CheckTypes(LibFile[k].prog.code, LibFile[k].name) IN IF ~t.ok THEN [t EXCEPT !.key = "library:" \o @] ELSE r]
         bad == { k \in 1..Len(res) : ~res[k].ok } IN
     IF bad = {} THEN V14(TRUE, "ok", "", ToString(Len(LibFile)) \o " procedures")
     ELSE res[CHOOSE k \in bad : \A j \in bad : k <= j]
  ELSE LET bp == BProg(cs.out) IN
       \* a RUN statement that does not parse because an operand is missing passes an empty argument: an interface matter;
       \* any other parse failure is property C07's
       IF ~bp.ok THEN
          (IF bp.errln >= 1 /\ bp.errln <= Len(cs.out) /\ (\E k \in 1..Len(cs.out[bp.errln]) : IsKw(cs.out[bp.errln][k], "RUN"))
              /\ (\E k \in 1..(Len(cs.out[bp.errln]) - 1) : LET a == cs.out[bp.errln][k]  b == cs.out[bp.errln][k + 1] IN
                                                             (IsOpT(a, "(") /\ IsOpT(b, ",")) \/ (IsOpT(a, ",") /\ IsOpT(b, ",")) \/ (IsOpT(a, ",") /\ IsOpT(b, ")")))
           THEN V14(FALSE, "interface", "arity:empty-argument-in-RUN", "program line " \o ToString(bp.errln))
           ELSE V14(TRUE, "unjudged", "target-does-not-parse", bp.err))
       ELSE LET r == CheckRuns(bp.code, "program") IN
            IF ~r.ok THEN r ELSE LET t == CheckTypes(bp.code, "program") IN IF ~t.ok THEN t ELSE r
VARIABLES ci, vd
Init == ci \in 1..Len(Cases) /\ vd = [clause |-> "todo"]
Next == vd.clause = "todo" /\ vd' = Verdict(Cases[ci]) /\ UNCHANGED ci
=============================================================================
