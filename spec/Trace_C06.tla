----------------------------- MODULE Trace_C06 -----------------------------
(***************************************************************************)
(* C06: every jump lands on the line it names; label filtering never       *)
(* breaks a target.  From the parse of the *source* the specification      *)
(* computes the reference graph (Defined, Referenced), the expected        *)
(* outcome (refusal for a missing target, a line above 32699, a second ON  *)
(* ERR / ON BRK) and, for an accepted program, the expected label set.     *)
(* From the parse of the *emitted text* it reads the labels, the jump      *)
(* targets and the marker statement Q := n that the generator puts first   *)
(* on source line n.  The dispatcher at 32700 is executed on the BASIC09   *)
(* machine for a break (2) and two other error codes.                      *)
(***************************************************************************)
EXTENDS Refine
Cases == JsonDeserialize(IOEnv.CASES)
MaxLine == 32699
Handler == 32700

SeqToSet(s) == { s[k] : k \in 1..Len(s) }
\* ---- source side ----
SrcDefined(cs) == { cs.src[k].num : k \in 1..Len(cs.src) }
SrcRefsOf(ins) == CASE ins.op \in {"GOTO", "GOSUB", "ONERR", "ONBRK"} -> {ins.n}
                    [] ins.op = "ONGO" -> SeqToSet(ins.a) [] OTHER -> {}
SrcRefs(code) == UNION { SrcRefsOf(code[q]) : q \in 1..Len(code) }
\* jumps as a bag of line numbers (handlers are routed through the dispatcher and counted apart)
SrcJumpList(code) == FoldLeft(LAMBDA acc, ins : IF ins.op \in {"GOTO", "GOSUB"} THEN Append(acc, ins.n)
                                                ELSE IF ins.op = "ONGO" THEN acc \o ins.a ELSE acc, <<>>, code)
CountOp(code, op) == Cardinality({ q \in 1..Len(code) : code[q].op = op })
Expected(cs, dp) ==
  LET def == SrcDefined(cs)  refs == SrcRefs(dp.code) IN
  IF \E n \in def : n > MaxLine THEN "too-large"
  ELSE IF refs \ def # {} THEN "undefined-or-duplicate"
  ELSE IF CountOp(dp.code, "ONERR") > 1 \/ CountOp(dp.code, "ONBRK") > 1 THEN "undefined-or-duplicate"
  ELSE "ok"
\* several refusal reasons may hold at once; any documented refusal is then acceptable
Reasons(cs, dp) == Cardinality({ r \in {1, 2, 3} :
    CASE r = 1 -> \E n \in SrcDefined(cs) : n > MaxLine
      [] r = 2 -> SrcRefs(dp.code) \ SrcDefined(cs) # {}
      [] OTHER -> CountOp(dp.code, "ONERR") > 1 \/ CountOp(dp.code, "ONBRK") > 1 })
ExpLabels(cs, dp) ==
  LET def == SrcDefined(cs)  refs == SrcRefs(dp.code)
      hasH == cs.suffix /\ (CountOp(dp.code, "ONERR") + CountOp(dp.code, "ONBRK") > 0) IN
  (IF cs.filter THEN def \cap refs ELSE def \ (IF 0 \in refs THEN {} ELSE {0})) \cup (IF hasH THEN {Handler} ELSE {})

\* ---- target side ----
TgtLabelList(lines) == FoldLeft(LAMBDA acc, t : IF t # <<>> /\ t[1].k = "int" THEN Append(acc, t[1].n) ELSE acc, <<>>, lines)
TgtJumpList(code) == FoldLeft(LAMBDA acc, ins : IF ins.op \in {"GOTO", "GOSUB", "IFGOTO"} THEN Append(acc, ins.n)
                                                ELSE IF ins.op = "ONGO" THEN acc \o ins.a
                                                ELSE IF ins.op = "ONERR" /\ ins.n >= 0 THEN Append(acc, ins.n) ELSE acc, <<>>, code)
\* the marker of source line n: an assignment Q := n; returns the list of (label or -1, n) in text order
IsMarker(ins) == ins.op = "ASSIGN" /\ ins.e2[1] = "var" /\ ins.e2[2] = "Q" /\ ins.e[1] = "num" /\ ins.e[3] = 1
Markers(bp) == FoldLeft(LAMBDA acc, q : IF IsMarker(bp.code[q]) THEN Append(acc, <<q, bp.code[q].e[2]>>) ELSE acc, <<>>, [q \in 1..Len(bp.code) |-> q])
BagEq(s, t) == Len(s) = Len(t) /\ \A x \in SeqToSet(s) \cup SeqToSet(t) :
                 Cardinality({ k \in 1..Len(s) : s[k] = x }) = Cardinality({ k \in 1..Len(t) : t[k] = x })
Minus(s, x) == SelectSeq(s, LAMBDA y : y # x)
FirstDup(s) == LET c == { k \in 1..Len(s) : \E j \in 1..(k - 1) : s[j] = s[k] } IN IF c = {} THEN -1 ELSE s[CHOOSE k \in c : TRUE]

\* ---- dispatcher: run the emitted text from line 32700 as if error e had been raised ----
\* assume = TRUE: additionally pretend that the variable ERRNUM holds the code (see the known finding on ERRNUM:
\* the routing logic behind it is still checked)
Dispatch(bp, e, assume) ==
  LET st0 == [Load(bp.code, St0(<<>>, <<>>)) EXCEPT !.pc = bp.lab[Handler],
                 !.env = IF assume THEN Put(Put(EmptyF, "ERR", Num(e)), "ERRNUM", Num(e)) ELSE Put(EmptyF, "ERR", Num(e))]
      \* stop at the first jump: the line it goes to is the observation
      r == FoldLeft(LAMBDA s, i :
              IF s.status # "run" \/ s.pc > Len(bp.code) THEN s
              ELSE LET ins == bp.code[s.pc] IN
                   IF ins.op = "GOTO" THEN Stop(s, "went", ToString(ins.n))
                   ELSE IF ins.op = "IFGOTO" THEN
                        LET v == EvB(ins.e, s) IN
                        IF v[1] = "undef" THEN [Stop(s, "undef", "") EXCEPT !.rdundef = v[2]]
                        ELSE IF IsBool(v) /\ v[2] = 1 THEN Stop(s, "went", ToString(ins.n))
                        ELSE IF IsBool(v) THEN [s EXCEPT !.pc = @ + 1] ELSE Stop(s, "error", "type")
                   ELSE Step(bp, "b09", s), st0, [i \in 1..12 |-> i]) IN
  r

V6(ok, clause, key, detail) == [ok |-> ok, clause |-> clause, key |-> key, detail |-> detail]
Verdict(cs) ==
  LET dp0 == DProg(cs.src) IN
  IF ~dp0.ok THEN V6(TRUE, "machinery", "src-parse", ToString(dp0.errln))
  ELSE
  LET dp == [code |-> dp0.code, lab |-> dp0.lab]
      want == Expected(cs, dp) IN
  IF cs.outcome \notin {"ok", "undefined-or-duplicate", "too-large"} THEN
       V6(FALSE, "refusal", "refusal:undocumented-outcome:" \o cs.outcome, "want " \o want)
  ELSE IF want # cs.outcome /\ ~(Reasons(cs, dp) > 1 /\ cs.outcome # "ok") THEN
       V6(FALSE, "refusal", "refusal:want=" \o want \o ":got=" \o cs.outcome, "")
  ELSE IF cs.outcome # "ok" THEN V6(TRUE, "ok", "", "refused as specified")
  ELSE
  LET bp0 == BProg(cs.out) IN
  IF ~bp0.ok THEN V6(FALSE, "parses", "parses:" \o bp0.err, "target line " \o ToString(bp0.errln))
  ELSE
  LET bp == [code |-> bp0.code, lab |-> bp0.lab]
      labels == TgtLabelList(cs.out)
      explabels == ExpLabels(cs, dp)
      tj == TgtJumpList(bp.code)
      sj == SrcJumpList(dp.code)
      nH == CountOp(dp.code, "ONERR") + CountOp(dp.code, "ONBRK")
      mk == Markers(bp)
      srcnums == [k \in 1..Len(cs.src) |-> cs.src[k].num] IN
  IF FirstDup(labels) >= 0 THEN V6(FALSE, "labels", "labels:defined-twice", ToString(FirstDup(labels)))
  ELSE IF SeqToSet(labels) \ explabels # {} THEN
       V6(FALSE, "labels", "labels:unexpected-label" \o (IF cs.filter THEN ":filter-on" ELSE ":filter-off"), ToString(CHOOSE n \in SeqToSet(labels) \ explabels : TRUE))
  ELSE IF explabels \ SeqToSet(labels) # {} THEN
       V6(FALSE, "labels", "labels:label-lost" \o (IF cs.filter THEN ":filter-on" ELSE ":filter-off"), ToString(CHOOSE n \in explabels \ SeqToSet(labels) : TRUE))
  ELSE IF \E k \in 1..Len(tj) : tj[k] \notin SeqToSet(labels) THEN
       V6(FALSE, "target", "target:jump-to-unlabelled-line", ToString(tj[CHOOSE k \in 1..Len(tj) : tj[k] \notin SeqToSet(labels)]))
  \* every source jump is there, and only those (handler statements are replaced by ON ERROR GOTO 32700;
  \* the dispatcher adds one jump per handler)
  ELSE IF ~BagEq(Minus(tj, Handler), sj \o (IF cs.suffix THEN FoldLeft(LAMBDA acc, ins : IF ins.op \in {"ONERR", "ONBRK"} THEN Append(acc, ins.n) ELSE acc, <<>>, dp.code) ELSE <<>>)) THEN
       V6(FALSE, "target", "target:jump-targets-differ", "")
  ELSE IF Cardinality({ k \in 1..Len(tj) : tj[k] = Handler }) # nH THEN
       V6(FALSE, "target", "target:handler-statements", "")
  \* markers: same lines in the same order, and a labelled line carries the marker of its own number
  ELSE IF [k \in 1..Len(mk) |-> mk[k][2]] # srcnums THEN V6(FALSE, "statement-kept", "statement-kept:marker-sequence", "")
  ELSE IF \E n \in SeqToSet(labels) \ {Handler} : ~\E k \in 1..Len(mk) : mk[k][2] = n /\ mk[k][1] = bp.lab[n] THEN
       V6(FALSE, "target", "target:label-on-wrong-line", "")
  \* dispatcher
  ELSE IF cs.suffix /\ nH > 0 THEN
       LET brk == { q \in 1..Len(dp.code) : dp.code[q].op = "ONBRK" }
           err == { q \in 1..Len(dp.code) : dp.code[q].op = "ONERR" }
           wantTo(e) == IF e = 2 /\ brk # {} THEN ToString(dp.code[CHOOSE q \in brk : TRUE].n)
                        ELSE IF err # {} THEN ToString(dp.code[CHOOSE q \in err : TRUE].n) ELSE "fall-through"
           Bad(rs) == { e \in {2, 3, 50} : ~((rs[e].status = "went" /\ rs[e].why = wantTo(e)) \/ (wantTo(e) = "fall-through" /\ rs[e].status # "went")) }
           runsA == [e \in {2, 3, 50} |-> Dispatch(bp, e, TRUE)]
           runs == [e \in {2, 3, 50} |-> Dispatch(bp, e, FALSE)] IN
       IF Bad(runsA) # {} THEN
            LET e == CHOOSE x \in Bad(runsA) : \A y \in Bad(runsA) : x <= y IN
            V6(FALSE, "dispatcher", "dispatcher:error-" \o ToString(e) \o "-goes-to-" \o (IF runsA[e].status = "went" THEN "wrong-line" ELSE runsA[e].status),
               runsA[e].why \o " want " \o wantTo(e))
       ELSE IF Bad(runs) = {} THEN V6(TRUE, "ok", "", "")
       ELSE LET e == CHOOSE x \in Bad(runs) : \A y \in Bad(runs) : x <= y IN
            IF runs[e].status = "undef" THEN V6(FALSE, "dispatcher", "dispatcher:error-code-read-from-unassigned-variable:" \o runs[e].rdundef, "error " \o ToString(e))
            ELSE V6(FALSE, "dispatcher", "dispatcher:error-" \o ToString(e) \o "-goes-to-" \o (IF runs[e].status = "went" THEN "wrong-line" ELSE runs[e].status), runs[e].why \o " want " \o wantTo(e))
  ELSE V6(TRUE, "ok", "", "")

VARIABLES ci, vd
Init == ci \in 1..Len(Cases) /\ vd = [clause |-> "todo"]
Next == vd.clause = "todo" /\ vd' = Verdict(Cases[ci]) /\ UNCHANGED ci
=============================================================================
