-------------------------------- MODULE Faults --------------------------------
(***************************************************************************)
(* C19: damaged image files are reported, never silently decoded to a      *)
(* broken image.  A faulty input is a valid file of FileLen bytes with one     *)
(* fault: Truncate(n) keeps the first n bytes, Corrupt(i, v) replaces byte *)
(* i, Append(k) adds k bytes of garbage.  TLC enumerates the fault space    *)
(* (the initial states of this machine); the harness applies each fault to *)
(* the concrete file and runs the real decoder under an alarm.             *)
(*                                                                         *)
(* Validation (Verdict): the observation of a run is <<status, output      *)
(* exists, header, number of samples>>.  The property is stated on the     *)
(* observation only: the run terminated, and either it reported failure    *)
(* (non-zero exit, exception, no output file) or what it left behind is a  *)
(* complete image: header readable and followed by exactly width x height  *)
(* samples.  Which of the two happens is the decoder's choice.             *)
(***************************************************************************)
EXTENDS Integers, TLC
CONSTANTS FileLen, CorruptAt, Values, Appends, TruncStep
VARIABLES kind, pos, val
Init == \/ kind = "truncate" /\ pos \in { n \in 0..(FileLen - 1) : n % TruncStep = 0 \/ n < 64 \/ n > FileLen - 64 } /\ val = 0
        \/ kind = "corrupt" /\ pos \in CorruptAt /\ val \in Values
        \/ kind = "append" /\ pos = FileLen /\ val \in Appends
Next == UNCHANGED <<kind, pos, val>>
FaultOK == pos >= 0 /\ pos <= FileLen
=============================================================================
