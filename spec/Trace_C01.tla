----------------------------- MODULE Trace_C01 -----------------------------
(***************************************************************************)
(* C01: one expression per case, placed in one statement of a small        *)
(* program.  Source and target are run on the common machine for every     *)
(* input script (values of the free variables); on a disagreement the two  *)
(* operator trees -- the one Color BASIC builds from the source tokens and *)
(* the one BASIC09 builds from the emitted tokens, temporaries replaced by *)
(* the calls that define them -- are compared and the top-most difference  *)
(* becomes the key ("regroup:want=..:got=..").                             *)
(***************************************************************************)
EXTENDS Refine
Cases == JsonDeserialize(IOEnv.CASES)

HeadOf(tr) == CASE tr[1] = "bin" -> tr[2] [] tr[1] = "un" -> tr[2] [] tr[1] = "call" -> tr[2]
                [] tr[1] = "idx" -> "idx" [] OTHER -> "_"
RunFun(p) == IF CallFun(p) # "" THEN CallFun(p) ELSE p
\* common shape: <<"num",n,d,"">> <<"str",s,"","">> <<"var",name,"","">> <<"idx",name,args,"">>
\*               <<"un",op,x,"">> <<"bin",op,l,r>> <<"call",f,args,"">>
RECURSIVE NormS(_), NormT(_, _)
NormS(tr) ==
  CASE tr[1] = "num" -> N4("num", tr[2], tr[3], "")
    [] tr[1] = "par" -> NormS(tr[2])
    [] tr[1] = "var" -> N4("var", tr[2], "", "")
    [] tr[1] = "idx" -> N4("idx", TargetName(tr[2], TRUE), [k \in 1..Len(tr[3]) |-> NormS(tr[3][k])], "")
    [] tr[1] = "un" -> IF tr[2] = "pos" THEN NormS(tr[3]) ELSE N4("un", tr[2], NormS(tr[3]), "")
    [] tr[1] = "bin" -> N4("bin", tr[2], NormS(tr[3]), NormS(tr[4]))
    [] tr[1] = "call" -> N4("call", tr[2], [k \in 1..Len(tr[3]) |-> NormS(tr[3][k])], "")
    [] OTHER -> tr
NormT(tr, temps) ==
  CASE tr[1] = "num" -> N4("num", tr[2], tr[3], "")
    [] tr[1] = "par" -> NormT(tr[2], temps)
    [] tr[1] = "var" -> IF tr[2] \in DOMAIN temps THEN temps[tr[2]] ELSE N4("var", tr[2], "", "")
    [] tr[1] = "idx" -> N4("idx", tr[2], [k \in 1..Len(tr[3]) |-> NormT(tr[3][k], temps)], "")
    [] tr[1] = "un" -> IF tr[2] = "pos" THEN NormT(tr[3], temps) ELSE N4("un", tr[2], NormT(tr[3], temps), "")
    [] tr[1] = "bin" -> N4("bin", IF tr[2] = "**" THEN "^" ELSE tr[2], NormT(tr[3], temps), NormT(tr[4], temps))
    [] tr[1] = "call" ->
         IF tr[2] = "FLOAT" /\ Len(tr[3]) = 1 THEN NormT(tr[3][1], temps)
         ELSE IF tr[2] = "LNOT" /\ Len(tr[3]) = 1 THEN N4("un", "NOT", NormT(tr[3][1], temps), "")
         ELSE IF tr[2] \in {"LAND", "LOR"} /\ Len(tr[3]) = 2 THEN
              N4("bin", IF tr[2] = "LAND" THEN "AND" ELSE "OR", NormT(tr[3][1], temps), NormT(tr[3][2], temps))
         ELSE N4("call", tr[2], [k \in 1..Len(tr[3]) |-> NormT(tr[3][k], temps)], "")
    [] OTHER -> tr
Show(tr) == CASE tr[1] = "bin" -> tr[2] \o "(" \o HeadOf(tr[3]) \o "," \o HeadOf(tr[4]) \o ")"
              [] tr[1] = "un" -> tr[2] \o "(" \o HeadOf(tr[3]) \o ")"
              [] tr[1] = "call" -> tr[2] \o "()"
              [] OTHER -> tr[1]
RECURSIVE Diff(_, _), DiffArgs(_, _, _)
DiffArgs(a, b, k) == IF k > Len(a) THEN "" ELSE LET d == Diff(a[k], b[k]) IN IF d # "" THEN d ELSE DiffArgs(a, b, k + 1)
Diff(a, b) ==
  IF a[1] # b[1] THEN "want=" \o Show(a) \o ":got=" \o Show(b)
  ELSE CASE a[1] = "num" -> IF a[2] = b[2] /\ a[3] = b[3] THEN "" ELSE "literal"
    [] a[1] = "str" -> IF a[2] = b[2] THEN "" ELSE "string-literal"
    [] a[1] = "var" -> IF a[2] = b[2] THEN "" ELSE "variable"
    [] a[1] = "un" -> IF a[2] # b[2] THEN "want=" \o Show(a) \o ":got=" \o Show(b) ELSE Diff(a[3], b[3])
    [] a[1] = "bin" -> IF a[2] # b[2] THEN "want=" \o Show(a) \o ":got=" \o Show(b)
                       ELSE LET d == Diff(a[3], b[3]) IN IF d # "" THEN d ELSE Diff(a[4], b[4])
    [] a[1] \in {"call", "idx"} -> IF a[2] # b[2] \/ Len(a[3]) # Len(b[3]) THEN "want=" \o Show(a) \o ":got=" \o Show(b) ELSE DiffArgs(a[3], b[3], 1)
    [] OTHER -> ""

\* the expression under test: in the source it is the expression of the first instruction of the
\* line cs.line; in the target the last ASSIGN / JF / IFGOTO / ONGO / FOR / PRINT of the line labelled the same
ExprOf(ins, slot) == CASE ins.op = "RUN" -> (IF Len(ins.a) >= 1 THEN N4("call", RunFun(ins.x), SubSeq(ins.a, 1, Len(ins.a) - 1), "") ELSE Nil)
                       [] slot = "e2" -> ins.e2 [] slot = "e3" -> ins.e3
                       [] slot = "a1" -> IF Len(ins.a) >= 1 THEN ins.a[1] ELSE Nil
                       [] slot = "lv1" -> IF ins.e2[1] = "idx" /\ Len(ins.e2[3]) >= 1 THEN ins.e2[3][1] ELSE Nil
                       [] OTHER -> ins.e
TempsOf(group) ==
  FoldLeft(LAMBDA m, ins :
     IF ins.op = "RUN" /\ Len(ins.a) >= 1 /\ ins.a[Len(ins.a)][1] = "var" /\ ins.a[Len(ins.a)][2] \in TmpNames THEN
        LET nm == ins.a[Len(ins.a)][2]
            call == N4("call", RunFun(ins.x), [k \in 1..(Len(ins.a) - 1) |-> NormT(ins.a[k], m)], "") IN
        IF nm \in DOMAIN m THEN [m EXCEPT ![nm] = call] ELSE m @@ (nm :> call)
     ELSE m, EmptyF, group)
RegroupKey(cs, ps) ==
  LET dcode == ps.dp.code  bcode == ps.bp.code
      sidx == { k \in 1..Len(dcode) : dcode[k].ln = cs.srcln }
      spc == IF sidx = {} THEN 0 ELSE CHOOSE k \in sidx : \A j \in sidx : k <= j IN
  IF spc = 0 \/ cs.label \notin DOMAIN ps.bp.lab THEN ""
  ELSE LET tln == bcode[ps.bp.lab[cs.label]].ln
           gseq == SelectSeq([k \in 1..Len(bcode) |-> k], LAMBDA k : bcode[k].ln = tln)
           group == [k \in 1..Len(gseq) |-> bcode[gseq[k]]]
           fin == { k \in 1..Len(group) : group[k].op \in {"ASSIGN", "JF", "IFGOTO", "ONGO", "FOR", "PRINT"}
                                            \/ (group[k].op = "RUN" /\ Len(group[k].a) >= 1 /\ group[k].a[Len(group[k].a)][1] = "var"
                                                /\ group[k].a[Len(group[k].a)][2] \notin TmpNames) } IN
       IF fin = {} THEN ""
       ELSE LET tins == group[CHOOSE k \in fin : \A j \in fin : j <= k]
                sins == dcode[spc]
                slot == IF cs.slot = "a1p" THEN "a1" ELSE cs.slot
                want == IF cs.slot = "a1p" THEN N4("call", "STR$", <<NormS(ExprOf(sins, slot))>>, "") ELSE NormS(ExprOf(sins, slot))
                got0 == ExprOf(tins, slot)
                \* an assignment whose right side was a convertible call is emitted as RUN f(args, Z)
                got1 == NormT(got0, TempsOf(group))
                \* a numeric condition is emitted as  e <> 0.0 : that wrapper is not part of the expression
                got == IF got1[1] = "bin" /\ got1[2] = "<>" /\ got1[4][1] = "num" /\ got1[4][2] = 0
                          /\ ~(want[1] = "bin" /\ IsRelOp(want[2])) THEN got1[3] ELSE got1 IN
            IF want[1] = "nil" \/ got[1] = "nil" THEN "" ELSE Diff(want, got)
\* does a convertible function occur inside the arguments of a built-in one?
RECURSIVE ConvInBuiltin(_)
ConvInBuiltin(tr) ==
  CASE tr[1] = "call" -> (tr[2] \notin Convertible /\ \E k \in 1..Len(tr[3]) : HasConv(tr[3][k])) \/ \E k \in 1..Len(tr[3]) : ConvInBuiltin(tr[3][k])
    [] tr[1] = "idx" -> \E k \in 1..Len(tr[3]) : ConvInBuiltin(tr[3][k])
    [] tr[1] = "un" -> ConvInBuiltin(tr[3]) [] tr[1] = "par" -> ConvInBuiltin(tr[2])
    [] tr[1] = "bin" -> ConvInBuiltin(tr[3]) \/ ConvInBuiltin(tr[4]) [] OTHER -> FALSE
SrcSituation(cs, ps) ==
  LET sidx == { k \in 1..Len(ps.dp.code) : ps.dp.code[k].ln = cs.srcln } IN
  IF sidx = {} THEN "" ELSE
  LET sins == ps.dp.code[CHOOSE k \in sidx : \A j \in sidx : k <= j]
      e == ExprOf(sins, cs.slot) IN
  IF e[1] = "nil" THEN "" ELSE IF ConvInBuiltin(e) THEN ":src-arg-has-convertible" ELSE ":src-plain"

\* ---- the situation on the source side (second half of a finding's key, DESIGN.md 4.3) ----
\* does tree tr contain the unary operator u without an intervening parenthesis / call boundary?
RECURSIVE OpenUnary(_, _), Situation(_)
OpenUnary(tr, u) == CASE tr[1] = "un" -> tr[2] = u \/ OpenUnary(tr[3], u)
                      [] tr[1] = "bin" -> OpenUnary(tr[3], u) \/ OpenUnary(tr[4], u)
                      [] OTHER -> FALSE
Kids(tr) == CASE tr[1] = "un" -> <<tr[3]>> [] tr[1] = "bin" -> <<tr[3], tr[4]>> [] tr[1] = "par" -> <<tr[2]>>
              [] tr[1] \in {"call", "idx"} -> tr[3] [] OTHER -> <<>>
FirstNonEmpty(ss) == LET c == { k \in 1..Len(ss) : ss[k] # "" } IN IF c = {} THEN "" ELSE ss[CHOOSE k \in c : \A j \in c : k <= j]
\* Color BASIC ends the operand of a unary operator at the first operator of lower precedence; the
\* situations below are the ones where that operator is one whose spelling in the target fixes a grouping
Situation(tr) ==
  LET here ==
        IF tr[1] = "bin" /\ tr[2] \in {"AND", "OR"} /\ OpenUnary(tr[3], "NOT") THEN "NOT-operand-followed-by-AND-OR"
        ELSE IF tr[1] = "bin" /\ tr[2] \in {"AND", "OR"} /\ OpenUnary(tr[3], "neg") THEN "minus-operand-followed-by-AND-OR"
        ELSE IF tr[1] = "bin" /\ IsRelOp(tr[2]) /\ OpenUnary(tr[3], "neg") THEN "minus-operand-followed-by-comparison"
        ELSE IF tr[1] = "un" /\ tr[2] = "neg" /\ tr[3][1] = "bin" /\ tr[3][2] = "^" THEN "minus-applied-to-power"
        ELSE ""
      ks == Kids(tr) IN
  IF here # "" THEN here ELSE FirstNonEmpty([k \in 1..Len(ks) |-> Situation(ks[k])])
SrcExpr(cs, ps) ==
  LET sidx == { k \in 1..Len(ps.dp.code) : ps.dp.code[k].ln = cs.srcln } IN
  IF sidx = {} THEN Nil ELSE ExprOf(ps.dp.code[CHOOSE k \in sidx : \A j \in sidx : k <= j], IF cs.slot = "a1p" THEN "a1" ELSE cs.slot)

\* a bare literal (possibly negated): its value is compared token against token even where the value domain of
\* the machine ends (numbers beyond Lim evaluate to "uncomputed" on both sides)
\* a comparison used as a number (operand of arithmetic, of a sign, argument of a function): outside the fragment of C01
\* ("comparisons and AND/OR/NOT between them in IF conditions") and not type-correct BASIC09 (C07's caveat)
RECURSIVE Unpar(_), CmpAsNumber(_)
Unpar(tr) == IF tr[1] = "par" THEN Unpar(tr[2]) ELSE tr
IsRelTree(tr) == LET u == Unpar(tr) IN u[1] = "bin" /\ IsRelOp(u[2])
CmpAsNumber(tr) ==
  CASE tr[1] = "bin" -> (tr[2] \in {"+", "-", "*", "/", "^"} /\ (IsRelTree(tr[3]) \/ IsRelTree(tr[4]))) \/ CmpAsNumber(tr[3]) \/ CmpAsNumber(tr[4])
    [] tr[1] = "un" -> (tr[2] = "neg" /\ IsRelTree(tr[3])) \/ CmpAsNumber(tr[3])
    [] tr[1] = "par" -> CmpAsNumber(tr[2])
    [] tr[1] \in {"call", "idx"} -> \E k \in 1..Len(tr[3]) : IsRelTree(tr[3][k]) \/ CmpAsNumber(tr[3][k])
    [] OTHER -> FALSE
IsLiteralExpr(e) == e[1] = "num" \/ (e[1] = "par" /\ e[2][1] = "num") \/ (e[1] = "un" /\ e[3][1] = "num")
Verdict(cs) ==
  LET vd == JudgeAll(cs) IN
  IF vd.ok /\ vd.clause \in {"ok", "unjudged"} THEN
     (LET ps == Parsed(cs)  e == SrcExpr(cs, ps) IN
      IF e[1] # "nil" /\ IsLiteralExpr(e) /\ RegroupKey(cs, ps) = "literal"
      THEN [vd EXCEPT !.ok = FALSE, !.clause = "literal", !.key = "literal:emitted-literal-denotes-another-number", !.detail = "beyond the value domain of the machine"]
      ELSE vd)
  ELSE IF vd.ok THEN vd
  ELSE LET ps == Parsed(cs) IN
       IF ~ps.sok THEN vd
       ELSE LET e == SrcExpr(cs, ps)
                sit == IF e[1] = "nil" THEN "" ELSE Situation(e) IN
       IF e[1] # "nil" /\ CmpAsNumber(e) THEN [vd EXCEPT !.ok = TRUE, !.clause = "unjudged", !.key = "comparison-used-as-a-number", !.detail = vd.key]
       ELSE IF vd.clause = "parses" THEN [vd EXCEPT !.key = @ \o SrcSituation(cs, ps)]
       \* a recorded unary-operator situation in the source: also where the trees agree but BASIC09 typing fails (LNOT of a
       \* comparison), and inside PRINT items
       ELSE IF sit # "" /\ (vd.clause = "target-error" \/ (cs.slot = "a1p" /\ vd.clause = "obs" /\ RegroupKey(cs, ps) # ""))
            THEN [vd EXCEPT !.clause = "regroup", !.key = "regroup:src=" \o sit, !.detail = vd.key \o " | " \o @]
       ELSE IF cs.slot = "a1p" /\ vd.clause = "obs" THEN vd
       ELSE IF vd.clause \in {"temp-defined", "initial", "arity", "operand"} THEN vd
       ELSE LET rk == RegroupKey(cs, ps) IN
            IF rk = "" THEN vd
            ELSE [vd EXCEPT !.clause = "regroup", !.key = "regroup:" \o (IF sit # "" THEN "src=" \o sit ELSE rk), !.detail = rk \o " | " \o vd.key \o " | " \o @]

VARIABLES ci, vd
Init == ci \in 1..Len(Cases) /\ vd = [clause |-> "todo"]
Next == vd.clause = "todo" /\ vd' = Verdict(Cases[ci]) /\ UNCHANGED ci
=============================================================================
