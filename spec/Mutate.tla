------------------------------- MODULE Mutate -------------------------------
(***************************************************************************)
(* C15, generator: the mutation machine.  A program is a token sequence of *)
(* length N; a behaviour applies up to MaxMut mutations, each one of       *)
(*   Delete(i)  Duplicate(i)  Swap(i) (tokens i and i+1)  Extreme(i, x)    *)
(* (replace token i by the x-th extreme literal).  The state records the   *)
(* mutations applied; the harness applies them to the concrete tokens of   *)
(* every seed program and feeds the text to the real convert().            *)
(***************************************************************************)
EXTENDS Integers, Sequences, TLC
CONSTANTS N, MaxMut, NExtreme
VARIABLES muts, len
Init == muts = <<>> /\ len = N
Room == Len(muts) < MaxMut
Delete(i) == Room /\ len > 1 /\ i \in 1..len /\ muts' = Append(muts, <<"del", i, 0>>) /\ len' = len - 1
Duplicate(i) == Room /\ i \in 1..len /\ muts' = Append(muts, <<"dup", i, 0>>) /\ len' = len + 1
Swap(i) == Room /\ i \in 1..(len - 1) /\ muts' = Append(muts, <<"swap", i, 0>>) /\ len' = len
Extreme(i, x) == Room /\ i \in 1..len /\ x \in 1..NExtreme /\ muts' = Append(muts, <<"ext", i, x>>) /\ len' = len
Next == \E i \in 1..(N + MaxMut) : Delete(i) \/ Duplicate(i) \/ Swap(i) \/ \E x \in 1..NExtreme : Extreme(i, x)
Spec == Init /\ [][Next]_<<muts, len>>

Delta == LET F[k \in 0..Len(muts)] == IF k = 0 THEN 0 ELSE F[k - 1] + (IF muts[k][1] = "dup" THEN 1 ELSE IF muts[k][1] = "del" THEN -1 ELSE 0) IN F[Len(muts)]
LenOK == len = N + Delta
=============================================================================
