#!/bin/sh
# Offline setup: syntax-check every TLA+ module with SANY. Nothing is installed.
set -e
cd "$(dirname "$0")"
mkdir -p .work evidence
for f in spec/*.tla; do
  [ -e "$f" ] || continue
  (cd spec && tla-sany "$(basename "$f")" >/dev/null 2>&1) || { echo "SANY failed: $f"; exit 1; }
done
echo setup ok
