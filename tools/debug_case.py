#!/venv/bin/python
"""Development aid: ./tools/debug_case.py 'LINE1|LINE2' [opt=val ...] [--inp a,b] [--dev 1,2] -- prints both runs."""
import json, os, sys
sys.path.insert(0, "/verif")
from harness import common, gen
src = sys.argv[1].replace("|", "\n")
opts = {}
inp = ["2", "3", "AB"]
dev = [1, 0, 2, 3]
args = sys.argv[2:]
while args:
    a = args.pop(0)
    if a == "--inp": inp = args.pop(0).split(",")
    elif a == "--dev": dev = [int(x) for x in args.pop(0).split(",")]
    else:
        k, v = a.split("="); opts[k] = {"True": True, "False": False}.get(v, v)
        if isinstance(opts[k], str) and opts[k].isdigit(): opts[k] = int(opts[k])
r = common.run_real("w_convert", [{"src": src, "opts": opts}], shards=1)[0]
print(r.get("out", r))
if "out" in r:
    wd = common.workdir("debug")
    c = gen.program_case(1, src.split("\n"), opts, [{"inp": [gen.text_bytes(x) for x in inp], "dev": dev}], 200, r)
    json.dump([c], open(wd + "/c.json", "w"))
    open(wd + "/d.cfg", "w").write("INIT Init\nNEXT Next\n")
    t = common.run_tlc("Debug_Refine", cfg=wd + "/d.cfg", env={"CASES": wd + "/c.json", "LIBTOKS": common.lib_tokens_file(wd), "SCRIPT": ""}, wd=wd, dump=False, workers=1)
    for l in t.out.split("\n"):
        if l.startswith("<<") or l.startswith("  ") : print(l)
