#!/usr/bin/env python3
"""tools/addfinding.py PROP KEY STATUS 'what' 'witness' 'root' [commit]  -- maintain known_findings.json by hand (never at check time)"""
import json, sys
p = "/verif/known_findings.json"
d = json.load(open(p))
prop, key, status, what, witness, root = sys.argv[1:7]
e = {"property": prop, "key": key, "status": status, "what": what, "witness": witness, "root": root}
if len(sys.argv) > 7:
    e["commit"] = sys.argv[7]
d["findings"] = [x for x in d["findings"] if not (x["property"] == prop and x["key"] == key)] + [e]
d["findings"].sort(key=lambda x: (x["property"], x["status"], x["key"]))
json.dump(d, open(p, "w"), indent=1)
