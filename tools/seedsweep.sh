#!/bin/sh
# tools/seedsweep.sh "C01 C02 ..." "0 1 2"  -- run the quick checks under several seeds, print one line per run
cd "$(dirname "$0")/.."; mkdir -p .work
ids=${1:-$(python3 -c "import json;print(' '.join(c['property_id'] for c in json.load(open('MANIFEST.json'))['checks']))")}
seeds=${2:-"1 2 3 4"}
for s in $seeds; do for c in $ids; do
  VERIF_SEED=$s ./check $c > .work/sweep_$c.$s.log 2>&1; rc=$?
  echo "seed=$s $c rc=$rc $(tail -1 .work/sweep_$c.$s.log | cut -c1-160)"
  if [ $rc -ne 0 ]; then grep -A1 "^VIOLATION\|MACHINERY" .work/sweep_$c.$s.log | cut -c1-400; fi
done; done
