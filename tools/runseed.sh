#!/bin/sh
# tools/runseed.sh <scratch worktree with the mutant applied> "<check ids>" [seed]
# Runs the quick checks against a scratch copy of the repository (VERIF_REPO) without touching /repo or the
# committed evidence (VERIF_OUT, VERIF_WORKTAG redirect outputs).  Prints one line per check.
cd "$(dirname "$0")/.."
wt=$1; ids=$2; seed=${3:-0}
tag=_$(basename "$wt")_$$
out=/tmp/seedout$tag; mkdir -p $out
for c in $ids; do
  VERIF_REPO=$wt VERIF_OUT=$out VERIF_WORKTAG=$tag VERIF_SEED=$seed ./check $c > $out/$c.log 2>&1; rc=$?
  echo "$c rc=$rc $(grep -c '^VIOLATION' $out/$c.log) violation line(s): $(grep -A1 '^VIOLATION' $out/$c.log | grep 'key=' | head -2 | cut -c1-260 | tr '\n' ' ')"
  [ $rc -eq 2 ] && grep MACHINERY $out/$c.log | cut -c1-300
done
rm -rf .work/*$tag*
