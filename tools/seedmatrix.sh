#!/bin/sh
# tools/seedmatrix.sh [seed ids...]  : re-run the kept seeded changes (seeded/<id>/) against the checks that are meant to catch them.
# For each: a scratch worktree of /repo under /tmp, git apply patch.diff, the repository's tests, the demonstration,
# the quick checks named in meta.json "caught_by" (VERIF_REPO redirection; /repo and the committed evidence are untouched),
# then the worktree is removed.  One line per seeded change; the table is written to seeded/MATRIX.md.
cd "$(dirname "$0")/.."
ids=${*:-$(ls seeded | grep -v MATRIX)}
out=${MATRIX_OUT:-seeded/MATRIX.md}
tmp=/tmp/seedmatrix.$$
{
echo "| seeded change | property | tests with the change | demonstration (clean / changed) | checks that report it |"
echo "|---|---|---|---|---|"
} > $tmp
for id in $ids; do
  d=seeded/$id
  [ -f $d/patch.diff ] || continue
  # most demonstrations assert that coco is imported from the worktree they were written in
  prop0=${id%-*}; letter=${id#*-}
  case $letter in A|B) wt=/tmp/seed/$prop0 ;; C|D|E) wt=/tmp/seed2/$prop0 ;; F|G) wt=/tmp/seed3/$prop0 ;; H|I) wt=/tmp/seed4/$prop0 ;; *) wt=/tmp/seedwt_$id ;; esac
  mkdir -p $(dirname $wt)
  git -C /repo worktree add --detach $wt HEAD >/dev/null 2>&1 || { echo "$id: cannot create worktree"; continue; }
  prop=$(/venv/bin/python -c "import json;print(json.load(open('$d/meta.json'))['property'])")
  checks=$(/venv/bin/python -c "import json;print(' '.join(json.load(open('$d/meta.json'))['caught_by']))")
  mkdir -p $wt/seed_X; cp $d/demo.py $wt/seed_X/demo.py
  (cd $wt && PYTHONPATH=$wt /venv/bin/python seed_X/demo.py >/dev/null 2>&1); d0=$?
  if ! git -C $wt apply $PWD/$d/patch.diff; then echo "$id: patch does not apply"; git -C /repo worktree remove --force $wt; continue; fi
  t=$(cd $wt && PYTHONPATH=$wt /venv/bin/python -m pytest -q -p no:cacheprovider tests 2>&1 | tail -1 | sed 's/ in .*//')
  (cd $wt && PYTHONPATH=$wt /venv/bin/python seed_X/demo.py >/dev/null 2>&1); d1=$?
  res=""
  for c in $checks; do
    line=$(tools/runseed.sh $wt $c | head -1)
    rc=$(echo "$line" | sed -n 's/^[A-Z0-9]* rc=\([0-9]*\).*/\1/p')
    key=$(echo "$line" | sed -n 's/.*key=\([^ ]*\).*/\1/p')
    res="$res $c:rc=$rc${key:+ ($key)}"
  done
  echo "$id: tests=[$t] demo=$d0/$d1 $res"
  echo "| $id | $prop | $t | exit $d0 / exit $d1 |$res |" >> $tmp
  cp $tmp $out
  git -C /repo worktree remove --force $wt
done
mv $tmp $out
git -C /repo worktree prune
