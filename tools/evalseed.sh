#!/bin/sh
# tools/evalseed.sh <worktree> <seed dir name> "<check ids>" [seed]: confirm a seeded change (tests pass, demo fails) and run checks against it
wt=$1; sd=$2; ids=$3; seed=${4:-0}
cd $wt || exit 2
git checkout -q -- . 2>/dev/null
PYTHONPATH=$wt /venv/bin/python $sd/demo.py >/dev/null 2>&1; d0=$?
git apply $sd/patch.diff || { echo "patch does not apply"; exit 2; }
t=$(PYTHONPATH=$wt /venv/bin/python -m pytest -q -p no:cacheprovider tests 2>&1 | tail -1)
PYTHONPATH=$wt /venv/bin/python $sd/demo.py >/dev/null 2>&1; d1=$?
echo "== $wt/$sd: demo clean=$d0 mutated=$d1; tests: $t"
/verif/tools/runseed.sh $wt "$ids" $seed
git checkout -q -- .
