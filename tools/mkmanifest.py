#!/usr/bin/env python3
"""Regenerate /verif/MANIFEST.json from the table below (keeps the file valid at all times)."""
import json, os
V = os.path.dirname(os.path.dirname(os.path.abspath(__file__)))
ids = [json.loads(l)["id"] for l in open(os.path.join(V, "properties.jsonl"))]
MC = "model_checking"
CHECKS = {
 "C01": dict(tech="TLC trace validation of emitted BASIC09 against Color BASIC semantics (TLA+ machines for both languages; inputs enumerated by a TLA+ generator machine)",
   text="TLC enumerates every expression of the fragment up to an operator bound (GenExpr.tla), the real convert() output is lexed and handed back to TLC, which parses it under BASIC09 precedence/typing (B09.tla), runs source and target on one abstract machine (Machine.tla) for all input scripts of a small value domain and compares assignments, branches taken and operator trees (Refine.tla, Trace_C01.tla). Small-scope exhaustive, random beyond.",
   note="Trusted: TLC/SANY, my reading of Color BASIC and BASIC09 semantics (strict/permissive split, DESIGN 4.1), the lexer shims. Exact rationals in a tiny domain; floating point rounding and transcendental functions are not modelled (uninterpreted).", ref="5 C01"),
 "C02": dict(tech="TLC trace validation: source and emitted program run in lock step on one TLA+ machine; programs from a TLA+ generator machine",
   text="GenProg.tla builds programs over a control-flow palette (IF in ten shapes incl. ELSE IF chains, FOR/NEXT with STEP / bare NEXT / NEXT lists, GOTO, GOSUB/RETURN, ON..GOTO/GOSUB, END, STOP) with lexically nested loops; every program is converted by the real tool under the four filter x initialise settings and Trace_Refine.tla compares the observable event sequences (assignments that change a value, output, halt) of source and target for every input value.",
   note="Trusted: as C01. FOR loops that BASIC09 might skip (start beyond end), ON selectors out of range and reads of never-assigned variables without pre-initialisation are unjudged, not violations. Fuel-bounded runs (source 150 steps).", ref="5 C02"),
 "C05": dict(tech="TLC trace validation of call sequences: convertible-function calls of source and target compared in order with argument values; device values scripted",
   text="GenExpr.tla enumerates nestings of the convertible functions inside each other, inside built-in functions and arithmetic; each nesting is placed in 28 statement contexts (assignment, array target/subscript, IF / IF-ELSE / ELSE-IF, FOR bounds, PRINT / PRINT@, ON, READ / INPUT targets, WIDTH, device operands, re-executed lines). Trace_Refine.tla runs both programs and compares the sequence of calls (name, argument values), rejects reads of unassigned temporaries and lost operands.",
   note="Trusted: as C01. Library procedures behave as the Color BASIC function they stand for (assume/guarantee, DESIGN 2.3).", ref="5 C05"),
 "C03": dict(tech="TLC trace validation on the common TLA+ machine; PRINT/DATA lists enumerated by a TLA+ generator machine",
   text="GenSeq.tla enumerates every PRINT list (items x ; , juxtaposition, leading/trailing separators) and every DATA list over nine item kinds up to a length bound; programs with DIM in 1-3 dimensions (decimal/hex), implicit arrays, boundary subscripts, INPUT/LINE INPUT forms, and the ten string functions for all strings up to length 3 over {A,B} and indices 0..4 are converted by the real tool (string storage 32 and 80, initialise on/off) and Trace_Refine.tla compares output events, prompts, store changes; with pre-initialisation requested a read of an unassigned variable or element in the target is a violation.",
   note="Trusted: as C01. READ of a numeric item into a string (and vice versa) and strings longer than the declared size are unjudged. Number formatting itself is the library's contract (assume/guarantee).", ref="5 C03"),
 "C04": dict(tech="TLC trace validation: device events by role; parameter positions read by TLC from the library text of the working tree",
   text="71 device statement / function forms x presence patterns of optional operands x operand shapes (literal, variable, expression, parenthesised, convertible function) are converted by the real tool; Trace_C04.tla runs source and target: the source emits dev(procedure, operand values by role with the documented defaults), the target's RUN arguments are mapped through the PARAM names parsed from ecb.b09; plus the HBUFF prologue iff clause.",
   note="Trusted: as C01, and the role table DevSig in Machine.tla (Appendix A of DESIGN.md). If a library parameter is renamed the check falls back to the pinned position.", ref="5 C04"),
 "C06": dict(tech="TLC static obligations over the parse of source and output (reference graph, label set, markers) plus TLC execution of the 32700 dispatcher",
   text="GenProg.tla puts one of 13 reference positions (GOTO, GOSUB, THEN/ELSE lines, nested IF, ELSE-IF arms, ON lists, ON ERR, ON BRK) with one of five target kinds (itself, another line, line 0, missing, above 32699) on every line of 1-3 line programs under five numberings (incl. 0, 32699, 32700); Trace_C06.tla computes from the source parse the expected refusal class or the expected label set for filter on/off, and checks labels, jump targets, per-line markers and the dispatcher on the emitted text.",
   note="Trusted: B09/Decb parsers. Refusals are classified by exception type name only. The dispatcher is judged twice: as written, and assuming its error-code variable held the code (so routing is still checked behind the known errnum finding).", ref="5 C06"),
 "C07": dict(tech="TLC push-down recogniser over the emitted token stream (trace = tokens, actions = statement and block keywords)",
   text="B09.tla is a recogniser for BASIC09: statement forms, expression grammar with every operator/call operand present, declarations, block keywords matched with a stack. Trace_C07.tla accepts a trace iff all tokens are consumed with an empty stack. Inputs: each of 226 statement forms alone, edge programs, the bundled examples and GenProg.tla random programs over all statement kinds x option sets; the recogniser itself must accept the hand-written 1425-line runtime library.",
   note="Trusted: my BASIC09 grammar (reserved words taken from the basic09 binary on the playground disk); permissive where unsure (unary plus, text after THEN). Type correctness of boolean/numeric mixes is not part of this property.", ref="5 C07"),
 "C09": dict(tech="TLC model checking of the naming convention over a name space + TLC set comparison of output identifiers with the images of the source variables",
   text="Names.tla: 1.26M states (all pairs of names up to 4 characters over a small alphabet x kinds) satisfy Faithful (same Color BASIC identity <=> same target identifier) and NoCollision. GenSeq.tla enumerates all 962 names of length 1-2 and 3240 keyword-spelling names of length 3-4; pairs are placed in 36 syntactic positions of one program; Trace_C09.tla demands that the identifiers of the real output equal the images of the source variables.",
   note="Trusted: lexer shim, the list of generated identifiers (TargetOnly in Machine.tla).", ref="5 C09"),
 "C10": dict(tech="TLC static obligations over the parse of the output (declaration scan) against extents/sizes computed from the source parse and the options",
   text="Trace_C10.tla walks the DIM statements and variable occurrences of the emitted text in textual order (clauses once, declared, extent, before-use, sized); expected extents and sizes come from the source parse, the default string size and the per-name configuration. String and numeric variables are placed in every position class (top level, only inside built-in / convertible function arguments, only READ/INPUT target, implicit array element, DIMensioned scalar/array, temporaries, read filter, joystick/hbuff prologue) x the option cube (default size 32/80 x subsets of a 3-entry size map x initialise), enumerated by GenSeq.tla.",
   note="Trusted: B09/Decb parsers, lexer shims. Position of BASE relative to DIM is not judged (BASIC09 uncertain).", ref="5 C10"),
 "C13": dict(tech="TLC model checking of the closure algorithm over all graphs (safety + liveness) and TLC validation of real bundles parsed by the TLA+ BASIC09 grammar",
   text="Bundle.tla: for all 65536 directed graphs over 4 nodes the worklist machine terminates (liveness under weak fairness) with exactly the reachable set, once each, dependencies ascending, root last (622592 states). The same graphs, dumped by TLC, are rendered to synthetic libraries and pushed through the real ProcedureBank; real programs over subsets of 18 runtime-using statements and decoys (RUN / PROCEDURE / placeholder inside string literals, DATA items, comments) go through convert(output_dependencies=True). Trace_C13.tla parses each bundle and checks root-last, unique, order, closed, minimal, library text token-for-token with the placeholder replaced, user-text-intact.",
   note="Trusted: B09 grammar (decides what is a RUN statement), lexer shim (keeps original spelling for the order clause).", ref="5 C13"),
 "C14": dict(tech="TLC static obligations: RUN statements of emitted programs and of the library against PARAM/TYPE declarations parsed by TLC from the library text",
   text="Trace_C14.tla reads the signatures (parameter count, class per position, record types) from ecb.b09 of the working tree and checks every RUN of every emitted program (all 71 device forms x operand shapes with the full prologue, all convertible functions in 28 statement contexts, INPUT wrappers, empty-DATA filter, PRINT/HPRINT of numbers, HBUFF/JOYSTK prologue) and all calls between the 55 library procedures: defined, arity, string/numeric/record class, result position is a variable, TYPE declarations identical field by field.",
   note="Trusted: B09 grammar and a simple static class inference (suffix, declarations, result class of built-ins). BYTE/INTEGER/REAL are one class (the property says numeric).", ref="5 C14"),
 "C11": dict(tech="TLC walks the option hypercube (Toggle action) over recorded real outputs and checks the documented delta on every edge; second cube for the command-line flags",
   text="For each program (fixed ones exercising every option plus GenProg.tla random programs over all statement kinds) the real convert() outputs under all 32 option vectors are recorded; Trace_C11.tla flips one option at a time from every vector (160 edges per program) and checks LabelsOnlyRemoved, OnlyInitLinesRemoved, OnlyStartFlagDiffers, OnlyHeaderAndBundleRemoved, OnlyStringDeclsDiffer on token lines. For a subset the decb-to-b09 entry point is run with all 32 flag vectors on real files: output must equal convert() under FlagMap(flags), procedure named after the file, CR line ends only.",
   note="Trusted: lexer shim, the delta relations as my reading of the README. Blank lines are not significant.", ref="5 C11"),
 "C12": dict(tech="TLC-enumerated call histories replayed in forked fresh interpreters under many hash seeds; TLC validates every recorded trace against the stateless specification",
   text="Trace_C12.tla specifies convert() and the decoders as stateless functions and enumerates histories of calls over a pool of 8 conversions (several implicit arrays, string sizes, dependencies, handlers) and 8 decoder invocations; every history is replayed in a forked freshly imported interpreter under each PYTHONHASHSEED; Validate_C12.tla accepts a trace iff each step returns the canonical result of its call.",
   note="The specification is trivial by design (that is the property); the value is in the history enumeration and the seed dimension. Results are compared by SHA-1.", ref="5 C12"),
}
NA_REASON = "check not built yet in this round (work in progress; see DESIGN.md Appendix D)"
m = {"version": 1, "setup_cmd": "cd /verif && ./setup.sh",
 "hooks": {"guard": "COCO_TOOLS_VERIF", "enable": "no hooks: binding is by observable output of public entry points only (DESIGN.md 2.4)",
           "baseline_off_cmd": "cd /repo && /venv/bin/python -m pytest -ra -q -p no:cacheprovider --timeout=900 --continue-on-collection-errors",
           "source_commits": [], "add_only": True},
 "engines": [{"name": "tlc", "path": "/verif/spec", "serves_properties": sorted(CHECKS), "kind_free_text": "TLA+ specifications checked with TLC 1.8 (generation, model checking, batch trace validation)"},
             {"name": "harness", "path": "/verif/harness", "serves_properties": sorted(CHECKS), "kind_free_text": "Python shim: lexers, renderers, real-code workers, TLC runner, findings matcher (no judgement)"}],
 "checks": [], "notes": "Model-based verification with explicit TLA+ specifications; see DESIGN.md. Known findings: known_findings.json.",
 "not_applicable": []}
for i in ids:
    if i in CHECKS:
        c = CHECKS[i]
        m["checks"].append({"property_id": i, "quick_cmd": "cd /verif && ./check %s --tier quick" % i,
          "thorough_cmd": "cd /verif && ./check %s --tier thorough" % i, "evidence_file": "/verif/evidence/%s.json" % i,
          "replay_cmd_template": "cd /verif && ./check %s --replay {path}" % i, "engine": "tlc",
          "level_claimed": {"category": c.get("cat", MC), "text": c["text"], "design_ref": c["ref"]},
          "level_note": c["note"], "technique": c["tech"]})
    else:
        m["not_applicable"].append({"property_id": i, "reason": NA_REASON})
json.dump(m, open(os.path.join(V, "MANIFEST.json"), "w"), indent=1)
print("checks:", [c["property_id"] for c in m["checks"]])
