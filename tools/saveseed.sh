#!/bin/sh
# tools/saveseed.sh <worktree> <seed dir> <id> <property> "<needs>" "<caught by>" : keep a confirmed seeded change under /verif/seeded/<id>/
wt=$1; sd=$2; id=$3; prop=$4; needs=$5; caught=$6
d=/verif/seeded/$id
mkdir -p $d
cp $wt/$sd/patch.diff $d/patch.diff
cp $wt/$sd/demo.py $d/demo.py
[ -f $wt/$sd/notes.txt ] && cp $wt/$sd/notes.txt $d/notes.txt
/venv/bin/python - "$d" "$prop" "$needs" "$caught" "$id" <<'PY'
import json, sys
d, prop, needs, caught, sid = sys.argv[1:6]
json.dump({"id": sid, "property": prop, "needs_to_manifest": needs,
           "confirmed": "in a scratch worktree of /repo: git apply patch.diff; pytest tests -> 306 passed; demo.py exits 0 on the clean tree and 1 with the patch",
           "ran": "tools/evalseed.sh <worktree> <seed dir> \"<checks>\" (checks run with VERIF_REPO=<worktree>, evidence redirected)",
           "caught_by": [c for c in caught.split(",") if c]}, open(d + "/meta.json", "w"), indent=1)
PY
echo saved $d
