"""Worker: run the real coco.b09.compiler.convert() from /repo on a list of cases.

in : [{"src": str, "opts": {...}, "cfg": {name: size} | None}]
out: [{"out": str} | {"exc": type-name, "msg": str}]
No judgement here: the exception is reported by its type name only.
"""
import json
import signal
import sys

sys.setrecursionlimit(10000)
from coco.b09 import compiler  # noqa: E402  (resolved through PYTHONPATH=/repo)
from coco.b09.configs import CompilerConfigs, StringConfigs  # noqa: E402


class _Timeout(BaseException):
    pass


def _alarm(signum, frame):
    raise _Timeout()


def outcome_class(name, mod):
    """the documented refusals, recognised by exception type only"""
    if name == "ParseError" and mod.startswith("coco."):
        return "undefined-or-duplicate"
    if name == "LineNumberTooLargeException":
        return "too-large"
    if name in ("ParseError", "IncompleteParseError") and mod.startswith("parsimonious"):
        return "grammar"
    if name == "ValidationError":
        return "config"
    return "other:" + name


def one(case):
    opts = dict(case.get("opts") or {})
    try:
        if case.get("cfg") is not None:
            opts["compiler_configs"] = CompilerConfigs(string_configs=StringConfigs(strname_to_size=case["cfg"]))
        signal.alarm(int(case.get("timeout", 20)))
        try:
            out = compiler.convert(case["src"], **opts)
        finally:
            signal.alarm(0)
        return {"out": out}
    except _Timeout:
        return {"exc": "TIMEOUT", "msg": ""}
    except BaseException as ex:  # noqa: BLE001 - classification happens in the specification
        mod = type(ex).__module__ or ""
        return {"exc": type(ex).__name__, "mod": mod, "msg": str(ex)[:300], "outcome": outcome_class(type(ex).__name__, mod)}


def main():
    signal.signal(signal.SIGALRM, _alarm)
    with open(sys.argv[1]) as f:
        cases = json.load(f)
    res = [one(c) for c in cases]
    with open(sys.argv[2], "w") as f:
        json.dump(res, f)


if __name__ == "__main__":
    main()
