"""C06 - every jump lands on the line it names; label filtering never breaks a target.

(G) spec/GenProg.tla places one of 13 reference positions with one of five target kinds on each line (all singles and
pairs exhaustively, triples sampled); (V) spec/Trace_C06.tla computes the reference graph of the source, the expected
refusal / label set, and checks the labels, jump targets, line markers and the 32700 dispatcher of the emitted text.
"""
import random

from harness import common, gen, b09lex, decblex

PID = "C06"
POS = [
    "GOTO {t}", "GOSUB {t}", "IF A=1 THEN {t}", "IF A=1 THEN {t} ELSE {u}", "IF A=1 THEN B=1 ELSE {t}",
    "IF A=1 THEN IF B=1 THEN {t} ELSE {u}", "IF A=1 THEN B=1 ELSE IF B=2 THEN {t} ELSE {u}", "IF A=1 THEN {u} ELSE IF B=2 THEN {t}",
    "ON A GOTO {t},{u}", "ON A GOSUB {u},{t},{t}", "ON ERR GOTO {t}", "ON BRK GOTO {t}", "B=1:GOTO {t}",
]
KINDS = ["self", "next", "zero", "missing", "big"]
NUMBERINGS = [[10, 20, 30, 40], [0, 10, 20, 30], [10, 20, 32699, 32700], [0, 5, 32698, 32699], [10, 32700, 32710, 40000]]


def palette():
    pal = [{"text": "B=B+1", "pos": -1, "kind": "none", "grp": 0}]
    for pi, p in enumerate(POS):
        for k in KINDS:
            pal.append({"text": p, "pos": pi, "kind": k, "last": True, "grp": 6 if "ERR" in p else 7 if "BRK" in p else 0})
    return pal


def resolve(kind, nums, i):
    if kind == "self":
        return nums[i]
    if kind == "next":
        return nums[(i + 1) % len(nums)]
    if kind == "zero":
        return 0
    if kind == "missing":
        return 55
    return 40001


def render(pal, prog, nums):
    nums = sorted(nums[:len(prog)])
    lines = []
    for i, ln in enumerate(prog):
        p = pal[ln[0]]
        stmt = p["text"].replace("{t}", str(resolve(p["kind"], nums, i))).replace("{u}", str(resolve("next", nums, i)))
        lines.append("%d Q=%d:%s" % (nums[i], nums[i], stmt))
    return lines


def main():
    rep = common.Report(PID)
    T = common.tier()
    rng = random.Random(common.seed())
    wd = common.workdir(PID)
    thorough = T == "thorough"
    pal = palette()
    progs = gen.gen_programs(rep, wd, "pairs", pal, 2, 1, maxpergroup=3)           # all singles and pairs
    progs += gen.gen_programs(rep, wd, "tri", pal, 3, 1, maxpergroup=3, simulate=30000 if thorough else 1500, depth=10, seed=common.seed())
    if not thorough:
        singles = [p for p in progs if len(p) == 1]
        pairs = [p for p in progs if len(p) == 2]
        tri = [p for p in progs if len(p) == 3]
        progs = singles + gen.sample(rng, pairs, 1500) + gen.sample(rng, tri, 700)
    plan = []
    seen = set()
    for n, p in enumerate(progs):
        nums = NUMBERINGS[n % len(NUMBERINGS)] if thorough or n % 3 else NUMBERINGS[0]
        lines = render(pal, p, nums)
        for filt in (False, True):
            suffix = bool((n + filt) % 2) or any("ERR" in l or "BRK" in l for l in lines)
            key = ("\n".join(lines), filt, suffix)
            if key in seen:
                continue
            seen.add(key)
            plan.append({"lines": lines, "filter": filt, "suffix": suffix})
    res = common.run_real("w_convert", [{"src": "\n".join(p["lines"]),
                                         "opts": {"add_standard_prefix": False, "filter_unused_linenum": p["filter"], "add_suffix": p["suffix"]}} for p in plan])
    cases = []
    for p, r in zip(plan, res):
        text = "\n".join(p["lines"])
        cases.append({"id": len(cases) + 1, "src": decblex.lex_program(text), "srctext": text, "filter": p["filter"], "suffix": p["suffix"],
                      "outcome": "ok" if "out" in r else r.get("outcome", "other:?"),
                      "out": b09lex.lex_nonblank(r["out"]) if "out" in r else [], "outtext": r.get("out", r.get("exc", ""))})
    vds = common.judge("Trace_C06", cases, rep, wd)
    ok = []
    for c, v in zip(cases, vds):
        rep.cov["traces_validated_against_impl"] += 1
        rep.count("outcome:" + c["outcome"])
        if v["clause"] == "machinery":
            raise common.MachineryError("source outside the specification's grammar: " + c["srctext"])
        if v["ok"]:
            rep.count("accepted")
            if c["outcome"] == "ok":
                ok.append(c)
            rep.sample({"src": c["srctext"], "filter": c["filter"], "suffix": c["suffix"], "outcome": c["outcome"], "verdict": "ok"})
        else:
            rep.count("rejected")
            rep.count("clause:" + v["clause"])
            rep.bad(v["key"], "%s {filter=%s,suffix=%s} -> %s [%s]" % (c["srctext"].replace("\n", " | "), c["filter"], c["suffix"],
                                                                    c["outtext"].strip().replace("\n", " | ")[:300], v["detail"]),
                    {"src": c["srctext"], "filter": c["filter"], "suffix": c["suffix"], "out": c["outtext"], "verdict": v})
    # canaries: drop a label / retarget a jump / claim success for a program that must be refused
    picked = []
    for c in gen.sample(rng, ok, 300):
        out = [list(l) for l in c["out"]]
        labelled = [i for i, l in enumerate(out) if l and l[0]["k"] == "int" and len(l) > 1]
        if not labelled:
            continue
        i = rng.choice(labelled)
        c2 = dict(c)
        if len(picked) % 2:
            out[i] = out[i][1:]
        else:
            out[i][0] = dict(out[i][0], n=out[i][0]["n"] + 1, v=str(out[i][0]["n"] + 1))
        c2["out"] = out
        picked.append(c2)
        if len(picked) >= 40:
            break
    cv = common.judge("Trace_C06", picked, rep, wd)
    rej = sum(1 for v in cv if not v["ok"])
    rep.count("canaries", len(picked))
    rep.count("canaries_rejected", rej)
    # a dropped label is only visible when it was required: with the filter off every defined label is
    if rej < len(picked):
        raise common.MachineryError("canaries: only %d of %d corrupted outputs were rejected" % (rej, len(picked)))
    return rep.finish({"exhaustive": False, "positions": len(POS), "target_kinds": len(KINDS), "pairs_exhaustive": thorough})


if __name__ == "__main__":
    common.main_wrap(main)
