"""C19 - damaged image files are reported, never silently decoded to a broken image.

spec/Faults.tla enumerates the fault space of a valid file (every truncation point, single-byte corruption of every
header field and compression control byte with boundary values, appended garbage); the harness applies each fault to
compact valid files of every format (produced by the encoder machines) and runs the real decoder under a 20 s alarm;
spec/Trace_C19.tla accepts a run iff it terminated and either reported failure or left a complete image behind.
"""
import base64
import os
import random

from harness import common, gen, imgfmt

PID = "C19"
VALUES = [0, 1, 127, 128, 255, 256, 257]     # 256 / 257: original byte + 1 / - 1


def faults(rep, wd, name, flen, corrupt_at, step):
    cfg = os.path.join(wd, "faults_%s.cfg" % name)
    with open(cfg, "w") as f:
        f.write("CONSTANTS\n  FileLen = %d\n  CorruptAt = {%s}\n  Values = {%s}\n  Appends = {1, 100}\n  TruncStep = %d\nINIT Init\nNEXT Next\nINVARIANT FaultOK\nCHECK_DEADLOCK FALSE\n" % (
            flen, ", ".join(map(str, corrupt_at)), ", ".join(map(str, VALUES)), step))
    r = rep.tlc(common.run_tlc("Faults", cfg=cfg, wd=wd))
    return sorted({(common.tlaval(st["kind"]), common.tlaval(st["pos"]), common.tlaval(st["val"])) for st in r.states})


def apply(data, kind, pos, val):
    if kind == "truncate":
        return data[:pos]
    if kind == "append":
        return data + bytes((31 * i + 5) % 256 for i in range(val))
    b = bytearray(data)
    nv = (b[pos] + 1) % 256 if val == 256 else (b[pos] - 1) % 256 if val == 257 else val
    if nv == b[pos]:
        return None
    b[pos] = nv
    return bytes(b)


def main():
    rep = common.Report(PID, level="model_checking")
    T = common.tier()
    rng = random.Random(common.seed())
    wd = common.workdir(PID)
    thorough = T == "thorough"
    jobs = []
    for v in imgfmt.variants_compact() + (imgfmt.variants_big_raw() if thorough else imgfmt.variants_big_raw()[:1]):
        fs = imgfmt.generate(rep, wd, v, 1, common.seed())
        if not fs:
            raise common.MachineryError("no file generated for " + v[0])
        f = fs[0]
        n = len(f["data"])
        small = n <= 1500
        step = 1 if n <= 6000 else 997
        hdr = list(range(min(n, 64)))
        body = list(range(64, n)) if small else gen.sample(rng, range(64, n), 400 if thorough else 60)
        # bytes with a structural role are always in the corruption set: RAT run counts and values (the two bytes after an
        # escape byte), MGE run counts (every second byte of a run-length body)
        struct = []
        fmt = f["fields"]["fmt"]
        if fmt == "RAT":
            esc = f["data"][0]
            at = [i for i in range(19, n - 2) if f["data"][i] == esc]
            for i in at[:: max(1, len(at) // 12)][:14]:
                struct += [i, i + 1, i + 2]
        elif fmt == "MGE" and f["data"][18] == 0:
            struct = list(range(51, n, 2))[:: max(1, (n - 51) // 2 // 12)][:14]
        struct = sorted({p for p in struct if 0 <= p < n})
        fl = faults(rep, wd, v[0], n, sorted(set(hdr + sorted(body) + struct)), step)
        if not thorough:
            tr = [x for x in fl if x[0] == "truncate"]
            co = [x for x in fl if x[0] == "corrupt"]
            ap = [x for x in fl if x[0] == "append"]
            tr = tr if len(tr) <= 200 else [x for x in tr if x[1] < 60 or x[1] > n - 30] + gen.sample(rng, tr, 110)
            co = [x for x in co if x[1] < 52 and x[2] in (0, 255, 256, 128)] + [x for x in co if x[1] >= 52 and x[1] in struct] \
                + gen.sample(rng, [x for x in co if x[1] >= 52 and x[1] not in struct], 150)
            fl = tr + co + ap
        for kind, pos, val in fl:
            d = apply(f["data"], kind, pos, val)
            if d is None:
                continue
            where = ":in-header" if kind == "corrupt" and pos < {"RAT": 19, "MGE": 51, "CM3": 30, "VEF": 18, "HRS": 16, "MAX": 5, "PIX": 0}[f["fields"]["fmt"]] else ""
            jobs.append({"tool": f["tool"], "args": f["args"], "data": d, "fmt": f["fields"]["fmt"], "fault": kind, "where": where,
                         "what": "%s %s: %s at %d value %d (valid file: %d bytes)" % (f["tool"], " ".join(f["args"]), kind, pos, val, n)})
    # random byte strings
    for k in range(3000 if thorough else 400):
        d = bytes(rng.randrange(256) for _ in range(rng.randint(0, 64)))
        tool, args, fmt = rng.choice([("rattoppm", [], "RAT"), ("mgetoppm", [], "MGE"), ("cm3toppm", [], "CM3"), ("veftopng", [], "VEF"), ("hrstoppm", ["-w", "8", "-r", "4"], "HRS"),
                                      ("maxtoppm", ["-w", "16"], "MAX"), ("maxtoppm", ["-newsroom"], "MAX"), ("pixtopgm", [], "PIX")])
        jobs.append({"tool": tool, "args": args, "data": d, "fmt": fmt, "fault": "random-bytes", "where": "", "what": "%s %s: %d random bytes %s" % (tool, " ".join(args), len(d), d[:12].hex())})
    res = imgfmt.decode([{"tool": j["tool"], "args": j["args"], "data": j["data"]} for j in jobs], timeout=20)
    cases = []
    for k, (j, r) in enumerate(zip(jobs, res)):
        g = imgfmt.got_of(r) if r["out"] is not None else {"status": r["status"], "w": 0, "h": 0, "nsamples": 0, "kind": "none"}
        readable = r["out"] is not None and g.get("kind") not in ("none", "bad") and not str(g["status"]).startswith("unreadable")
        cases.append({"id": k + 1, "fmt": j["fmt"], "fault": j["fault"], "where": j["where"], "what": j["what"],
                      "got": {"status": r["status"], "outexists": bool(r["outexists"]), "readable": bool(readable), "w": g["w"], "h": g["h"], "nsamples": g["nsamples"]}})
    vds = common.judge("Trace_C19", cases, rep, wd, shard=20000)
    for j, c, v in zip(jobs, cases, vds):
        rep.cov["traces_validated_against_impl"] += 1
        rep.count("fault:" + j["fault"])
        rep.count("format:" + j["fmt"])
        if v["ok"]:
            rep.count("outcome:" + v["clause"])
            rep.sample({"case": j["what"], "status": c["got"]["status"], "verdict": v["clause"]}, cap=6)
        else:
            rep.count("rejected")
            rep.bad(v["key"], v["detail"], {"tool": j["tool"], "args": j["args"], "data_b64": base64.b64encode(j["data"]).decode(), "verdict": v})
    rep.cov["evaluations"] = len(cases)
    rep.cov["distinct_nontrivial"] = len({(c["fmt"], c["fault"], c["got"]["status"], c["got"]["nsamples"]) for c in cases})
    rep.cov["rule"] = "one evaluation = one real decoder run on one faulted file; distinct = different (format, fault kind, status, sample count)"
    # gating canaries
    can = [{"id": 1, "fmt": "HRS", "fault": "canary", "where": "", "what": "canary", "got": {"status": "ok", "outexists": True, "readable": True, "w": 8, "h": 4, "nsamples": 90}},
           {"id": 2, "fmt": "HRS", "fault": "canary", "where": "", "what": "canary", "got": {"status": "timeout", "outexists": False, "readable": False, "w": 0, "h": 0, "nsamples": 0}},
           {"id": 3, "fmt": "HRS", "fault": "canary", "where": "", "what": "canary", "got": {"status": "ok", "outexists": True, "readable": True, "w": 8, "h": 4, "nsamples": 96}}]
    cv = common.judge("Trace_C19", can, rep, wd)
    if [v["ok"] for v in cv] != [False, False, True]:
        raise common.MachineryError("canary verdicts wrong: %r" % cv)
    return rep.finish({"exhaustive": thorough})


if __name__ == "__main__":
    common.main_wrap(main)
