"""Worker: run a real image decoder of /repo on given bytes.

in : [{"tool": module, "args": [...], "data": base64, "inmode": "file"|"stdin", "outmode": "file"|"stdout", "name": str?}]
out: [{"status": "ok"|"exit:<code>"|"exc:<Type>"|"false"|"timeout", "out": base64|None, "outexists": bool, "stderr": str}]
Each decoder call runs in a forked child so that sys.exit, stdin/stdout redirection and crashes are contained.
"""
import base64
import importlib
import io
import json
import os
import signal
import sys
import tempfile


def child(c, d, resf):
    tool = importlib.import_module("coco." + c["tool"])
    src = os.path.join(d, c.get("name", "in.bin"))
    dst = os.path.join(d, c.get("outname", "out.bin"))
    with open(src, "wb") as f:
        f.write(base64.b64decode(c["data"]))
    argv = list(c["args"])
    if c.get("inmode", "file") == "file":
        argv.append(src)
        if c.get("outmode", "file") == "file":
            argv.append(dst)
    status = "ok"
    signal.alarm(int(c.get("timeout", 20)))
    try:
        helpers = []
        if c.get("inmode", "file") == "stdin":
            # a real pipe (not seekable), fed by a helper process
            r, w = os.pipe()
            hp = os.fork()
            if hp == 0:
                os.close(r)
                try:
                    with open(src, "rb") as f, os.fdopen(w, "wb") as o:
                        o.write(f.read())
                except BaseException:  # noqa: BLE001  (the reader may stop early)
                    pass
                os._exit(0)
            os.close(w)
            os.dup2(r, 0)
            os.close(r)
            helpers.append(hp)
            sys.stdin = io.TextIOWrapper(io.FileIO(0, "rb", closefd=False))
        if c.get("outmode", "file") == "stdout" or c.get("inmode", "file") == "stdin":
            r, w = os.pipe()
            hp = os.fork()
            if hp == 0:
                os.close(w)
                os.close(0)
                with os.fdopen(r, "rb") as i, open(dst, "wb") as o:
                    while True:
                        b = i.read(65536)
                        if not b:
                            break
                        o.write(b)
                os._exit(0)
            os.close(r)
            os.dup2(w, 1)
            os.close(w)
            helpers.append(hp)
            sys.stdout = io.TextIOWrapper(io.FileIO(1, "wb", closefd=False))
        sys.stderr = open(os.path.join(d, "err.txt"), "w")
        tool.start(argv)
        try:
            sys.stdout.flush()
        except Exception:  # noqa: BLE001
            pass
    except SystemExit as ex:
        status = "ok" if ex.code in (0, None) else "exit:" + (str(ex.code) if isinstance(ex.code, int) else "message")
    except BaseException as ex:  # noqa: BLE001
        status = "exc:" + type(ex).__name__
        try:
            import traceback
            sys.stderr.write(traceback.format_exc()[-250:])
            sys.stderr.flush()
        except Exception:  # noqa: BLE001
            pass
    try:
        sys.stdout.flush()
    except Exception:  # noqa: BLE001
        pass
    try:
        os.close(1)
        os.close(0)
    except OSError:
        pass
    for hp in locals().get("helpers", []):
        try:
            os.waitpid(hp, 0)
        except OSError:
            pass
    with open(resf, "w") as f:
        f.write(status)
    os._exit(0)


def one(c):
    d = tempfile.mkdtemp(prefix="verifdec")
    resf = os.path.join(d, "status.txt")
    pid = os.fork()
    if pid == 0:
        try:
            child(c, d, resf)
        finally:
            os._exit(3)
    _, st = os.waitpid(pid, 0)
    status = "crash"
    if os.path.exists(resf):
        with open(resf) as f:
            status = f.read()
    elif os.WIFSIGNALED(st) and os.WTERMSIG(st) == signal.SIGALRM:
        status = "timeout"
    dst = os.path.join(d, c.get("outname", "out.bin"))
    out = None
    if os.path.exists(dst):
        with open(dst, "rb") as f:
            out = base64.b64encode(f.read()).decode()
    err = ""
    if os.path.exists(os.path.join(d, "err.txt")):
        with open(os.path.join(d, "err.txt"), errors="replace") as f:
            err = f.read()[-300:]
    for n in os.listdir(d):
        os.remove(os.path.join(d, n))
    os.rmdir(d)
    return {"status": status, "out": out, "outexists": out is not None, "stderr": err}


def main():
    with open(sys.argv[1]) as f:
        cases = json.load(f)
    with open(sys.argv[2], "w") as f:
        json.dump([one(c) for c in cases], f)


if __name__ == "__main__":
    main()
