"""C11 - each option changes only the aspect of the output it documents.

For every program the real outputs under all 2^5 option vectors of convert() (and, for a subset, under all 2^5 flag
vectors of the decb-to-b09 command line) are recorded; spec/Trace_C11.tla walks the whole hypercube (Toggle action)
and checks the documented effect of each option on every edge, and the flag -> option mapping of the command line.
"""
import itertools
import json
import random

from harness import common, gen, b09lex, corpus

PID = "C11"
FIXED = [
    ["10 A=1:GOTO 30", "20 B=2", "30 PRINT A;B$"],
    ["10 PRINT \"PAGE 1\x0cPAGE 2\":REM A\x0bB", "20 DATA X\x1cY,\"Q\x1dR\"", "30 A$=\"\x1e\""],     # characters str.splitlines() would split at
    ["0 A=1", "10 IF A=1 THEN 0 ELSE 20", "20 END"],
    ["10 DIM C(3),D$(2)", "20 C(1)=2:D$(1)=\"X\":E(2)=3:F$(1)=\"Y\"", "30 PRINT C(1);D$(1)"],
    ["10 INPUT \"N\";N$,A", "20 Z$=STR$(A)+N$:PRINT Z$"],
    ["10 FOR I=1 TO 3:PRINT I:NEXT", "20 GOSUB 40:END", "40 RETURN"],
    ["10 ON ERR GOTO 30", "20 Z=INT(A)", "30 END"],
    ["10 DATA 1,,3", "20 READ A,B,C$"],
    ["10 CLS:SOUND 1,2", "20 A$=INKEY$:IF A$=\"\" THEN 20"],
    ["10 REM ONLY A COMMENT"],
    ["10 Z=JOYSTK(0):HBUFF 1,10"],
    ["12000 CLS 3", "12010 GOTO 12000"],                              # labels of five digits, kept and filtered
    ["10000 PLAY \"C\"", "20000 SOUND 1,2:GOTO 10000", "32000 HSCREEN 2", "32699 Z$=STRING$(2,\"A\")"],
    ["0 HCLS 1", "1 LOCATE 1,2", "99 WIDTH 40:GOTO 0"],
]


def vecs():
    return list(itertools.product((0, 1), repeat=5))


def idx(v):
    return v[0] + 2 * v[1] + 4 * v[2] + 8 * v[3] + 16 * v[4]


STEMS = ["prog", "my-prog", "a_b", "lunar-lander_x", "Z9"]   # file stems: letters, digits, '_' and '-' are kept as the procedure name


def stem_of(pi):
    return STEMS[pi % len(STEMS)]


def opts_of(v, stem="prog"):
    return {"filter_unused_linenum": bool(v[0]), "initialize_vars": bool(v[1]), "default_width32": bool(v[2]),
            "output_dependencies": bool(v[3]), "default_str_storage": 80 if v[4] else 32, "procname": stem}


def flags_of(f):
    return (["-l"] if f[0] else []) + (["-z"] if f[1] else []) + (["-w"] if f[2] else []) + (["-D"] if f[3] else []) + (["-s", "80"] if f[4] else [])


class Table:
    def __init__(self):
        self.ix = {}
        self.lines = []

    def add(self, toks):
        k = json.dumps(toks)
        if k not in self.ix:
            self.lines.append(toks)
            self.ix[k] = len(self.lines)
        return self.ix[k]


def main():
    rep = common.Report(PID)
    T = common.tier()
    rng = random.Random(common.seed())
    wd = common.workdir(PID)
    thorough = T == "thorough"
    pal = corpus.palette()
    progs = [f for f in FIXED]
    rnd = gen.gen_programs(rep, wd, "all", pal, 4, 2, maxdepth=2, maxpergroup=2, simulate=600 if thorough else 60, depth=30, seed=common.seed())
    for p in gen.sample(rng, rnd, 150 if thorough else 22):
        progs.append(gen.render_program(pal, p) + corpus.TAIL)
    V = vecs()
    payload, where = [], []
    for pi, lines in enumerate(progs):
        for v in V:
            payload.append({"src": "\n".join(lines), "opts": opts_of(v, stem_of(pi))})
            where.append((pi, v))
    res = common.run_real("w_convert", payload)
    ncli = len(progs) if thorough else 7
    clip = [{"src": "\n".join(progs[pi]), "stem": stem_of(pi), "flags": flags_of(f)} for pi in range(ncli) for f in V]
    cres = common.run_real("w_cli", clip)
    cases, meta = [], []
    for pi, lines in enumerate(progs):
        rs = [r for (q, v), r in zip(where, res) if q == pi]
        if any("out" not in r for r in rs):
            rep.count("refused_programs")
            continue
        tab = Table()
        outs = [None] * 32
        for v, r in zip(V, rs):
            outs[idx(v)] = [tab.add(t) for t in b09lex.lex_text(r["out"])]
        cli = []
        hascli = pi < ncli
        if hascli:
            cl = [None] * 32
            for f, r in zip(V, cres[pi * 32:(pi + 1) * 32]):
                if "bytes" not in r:
                    raise common.MachineryError("command line failed on %r: %r" % (lines, r))
                text = bytes(r["bytes"]).decode("latin-1")
                cl[idx(f)] = {"ix": [tab.add(t) for t in b09lex.lex_text(text.replace("\r", "\n"))], "lf": text.count("\n")}
            cli = cl
        cases.append({"id": len(cases) + 1, "table": tab.lines, "outs": outs, "cli": cli, "hascli": hascli,
                      "stem": [t["v"] for t in b09lex.lex_text("procedure " + stem_of(pi))[0][1:]]})
        meta.append(lines)
    r = rep.tlc(common.run_tlc("Trace_C11", env={"CASES": dump(wd, cases)}, wd=wd, timeout=3000))
    edges = 0
    for st in r.states:
        vd = common.tlaval(st["vd"])
        if vd.get("clause") == "todo":
            continue
        edges += 1
        ci = common.tlaval(st["ci"])
        if not vd["ok"]:
            vec = common.tlaval(st["vec"])
            rep.bad(vd["key"], "%s at option vector %s" % (" | ".join(meta[ci - 1]), vec), {"src": "\n".join(meta[ci - 1]), "vector": vec, "verdict": vd})
    rep.cov["traces_validated_against_impl"] = len(cases) * 32 + sum(32 for c in cases if c["hascli"])
    rep.count("programs", len(cases))
    rep.count("hypercube_edges_checked", edges)
    rep.sample({"program": "\n".join(meta[0]), "outputs_recorded": 32, "cli_outputs_recorded": 32})
    # gating canaries: tamper with one recorded output per option and expect the edge to be rejected
    can = []
    base = cases[2]
    for o, (vec, old_new) in enumerate([((1, 0, 1, 0, 0), "drop-line"), ((0, 1, 1, 0, 0), "extra-line"), ((0, 0, 1, 0, 0), "flag-line"),
                                        ((0, 0, 1, 1, 0), "user-line"), ((0, 0, 1, 0, 1), "size-line")]):
        c2 = json.loads(json.dumps(base))
        k = idx(vec)
        seq = c2["outs"][k]
        if old_new == "drop-line":
            c2["outs"][k] = seq[:-1]
        else:
            c2["table"].append(b09lex.lex_line("ZZ9 := 5.0"))
            c2["outs"][k] = seq[:len(seq) // 2] + [len(c2["table"])] + seq[len(seq) // 2:]
        c2["hascli"] = False
        can.append(c2)
    rc = common.run_tlc("Trace_C11", env={"CASES": dump(wd, can, "canary")}, wd=wd)
    rejected_cases = set()
    for st in rc.states:
        vd = common.tlaval(st["vd"])
        if vd.get("clause") not in ("todo",) and not vd["ok"]:
            rejected_cases.add(common.tlaval(st["ci"]))
    rep.count("canaries", len(can))
    rep.count("canaries_rejected", len(rejected_cases))
    if len(rejected_cases) < len(can):
        raise common.MachineryError("canaries: tampered outputs of cases %s were accepted" % (set(range(1, len(can) + 1)) - rejected_cases))
    return rep.finish({"exhaustive": True, "options": 5, "cli_flags": 5})


def dump(wd, cases, name="cases"):
    import os
    path = os.path.join(wd, name + ".json")
    with open(path, "w") as f:
        json.dump(cases, f)
    return path


if __name__ == "__main__":
    common.main_wrap(main)
