"""Worker for C12: replay histories of calls, each in a forked copy of a freshly imported interpreter.

in : [{"calls": [call], "histories": [[call index, ...], ...]}]   (one element per worker invocation)
     call = {"kind": "convert", "src": str, "opts": {...}} | {"kind": "decode", "tool": module, "args": [...], "file": path}
          | {"kind": "convert_file", "src": str, "config": yaml text, "opts": {...}}
out: [{"results": [[sha1 of each step], ...]}]
The process hash seed comes from PYTHONHASHSEED (set by the harness); a forked child that has run nothing yet is an
interpreter with an empty conversion history.
"""
import hashlib
import importlib
import json
import os
import sys
import tempfile

from coco.b09 import compiler  # noqa: E402


def run_call(c):
    if c["kind"] == "convert":
        try:
            return hashlib.sha1(compiler.convert(c["src"], **c["opts"]).encode("latin-1", "replace")).hexdigest()
        except BaseException as ex:  # noqa: BLE001
            return "exc:" + type(ex).__name__
    if c["kind"] == "convert_file":
        # the command-line path: the options file is (re)written at one fixed path before every call, as a user editing it between
        # two runs would; the result may depend on its present content only
        import io
        cfgpath = os.path.join(tempfile.gettempdir(), "verifh_cfg_%d.yaml" % os.getpid())
        try:
            with open(cfgpath, "w") as f:
                f.write(c["config"])
            out = io.StringIO()
            compiler.convert_file(io.StringIO(c["src"]), out, config_file=cfgpath, **c["opts"])
            return hashlib.sha1(out.getvalue().encode("latin-1", "replace")).hexdigest()
        except BaseException as ex:  # noqa: BLE001
            return "exc:" + type(ex).__name__
        finally:
            if os.path.exists(cfgpath):
                os.remove(cfgpath)
    mod = importlib.import_module("coco." + c["tool"])
    fd, out = tempfile.mkstemp(prefix="verifh")
    os.close(fd)
    try:
        try:
            mod.start(list(c["args"]) + [c["file"], out])
        except BaseException as ex:  # noqa: BLE001
            return "exc:" + type(ex).__name__
        with open(out, "rb") as f:
            return hashlib.sha1(f.read()).hexdigest()
    finally:
        if os.path.exists(out):
            os.remove(out)


def replay(calls, hist):
    r, w = os.pipe()
    pid = os.fork()
    if pid == 0:
        os.close(r)
        try:
            res = [run_call(calls[k]) for k in hist]
        except BaseException as ex:  # noqa: BLE001
            res = ["crash:" + type(ex).__name__]
        with os.fdopen(w, "w") as f:
            json.dump(res, f)
        os._exit(0)
    os.close(w)
    with os.fdopen(r) as f:
        data = f.read()
    os.waitpid(pid, 0)
    return json.loads(data)


def main():
    with open(sys.argv[1]) as f:
        jobs = json.load(f)
    out = []
    for j in jobs:
        out.append({"results": [replay(j["calls"], h) for h in j["histories"]]})
    with open(sys.argv[2], "w") as f:
        json.dump(out, f)


if __name__ == "__main__":
    main()
