"""Shared driver for the behavioural checks (C02-C05): programs -> real convert() -> Trace_Refine verdicts."""
from harness import common, gen


def run(rep, wd, plan, module="Trace_Refine", extra_case=None, note=None):
    """plan: [{"lines": [...], "opts": {...}, "scripts": [...], "fuel": n, "tag": str}]
    Returns (cases, verdicts) for the accepted conversions; refusals are counted."""
    res = common.run_real("w_convert", [{"src": "\n".join(p["lines"]), "opts": p["opts"], "cfg": p.get("cfg")} for p in plan])
    cases = []
    for i, (p, r) in enumerate(zip(plan, res)):
        if "out" not in r:
            rep.count("refused")
            rep.count("refused_" + r.get("exc", "?"))
            continue
        c = gen.program_case(i + 1, p["lines"], p["opts"], p["scripts"], p.get("fuel", 200), r, {"tag": p.get("tag", "")})
        c["optstext"] = ",".join("%s=%s" % kv for kv in sorted(p["opts"].items()))
        if p.get("cut"):
            c["cut"] = True
        if extra_case:
            c.update(extra_case(p))
        cases.append(c)
    vds = common.judge(module, cases, rep, wd)
    return cases, vds


def what(c, v):
    return "%s {%s} -> %s [%s]" % (c["srctext"].replace("\n", " | "), c.get("optstext", ""),
                                  c["outtext"].strip().replace("\n", " | ")[:400], v.get("detail", ""))


def tally(rep, cases, vds, keyfilter=None):
    ok = []
    for c, v in zip(cases, vds):
        rep.cov["traces_validated_against_impl"] += 1
        if v["clause"] == "machinery":
            raise common.MachineryError("source program not in the specification's grammar: %s (%s)" % (c["srctext"], v))
        if v["clause"] == "unjudged":
            rep.count("unjudged")
            rep.count("unjudged:" + v["key"])
        elif v["ok"]:
            rep.count("accepted")
            ok.append(c)
            rep.sample({"src": c["srctext"], "opts": c.get("optstext", ""), "out": c["outtext"], "verdict": "ok",
                        "scripts": len(c["scripts"])})
        else:
            key = v["key"]
            if keyfilter:
                key = keyfilter(c, v)
                if key is None:
                    rep.count("rejected_elsewhere")      # a clause that belongs to another property's check
                    rep.count("elsewhere:" + v["clause"])
                    continue
            rep.count("rejected")
            rep.count("clause:" + v["clause"])
            rep.bad(key, what(c, v), {"src": c["srctext"], "opts": c.get("optstext", ""), "out": c["outtext"], "verdict": v})
    try:
        import json
        import os
        firsts = {}
        for key, w, _ in rep.viol:
            firsts.setdefault(key, w)
        with open(os.path.join(common.VERIF, ".work", rep.pid + os.environ.get("VERIF_WORKTAG", "") + "_violations.json"), "w") as f:
            json.dump(firsts, f, indent=1, default=str)
    except OSError:
        pass
    return ok


def canaries(rep, rng, okcases, wd, mutate, need=20, module="Trace_Refine"):
    """mutate(case, rng) -> corrupted copy or None.  Every corrupted output must be rejected by the specification."""
    picked = []
    for c in gen.sample(rng, okcases, 300):
        c2 = mutate(c, rng)
        if c2 is not None:
            picked.append(c2)
        if len(picked) >= need:
            break
    if not picked:
        raise common.MachineryError("no canary could be built")
    vds = common.judge(module, picked, rep, wd)
    rejected = sum(1 for v in vds if not v["ok"])
    rep.count("canaries", len(picked))
    rep.count("canaries_rejected", rejected)
    return picked, vds, rejected


def fixed_canaries(rep, wd, items, module="Trace_Refine", extra=None):
    """items: [(lines, opts, scripts, old, new)]: the real output of `lines` with the text `old` replaced by `new`
    is a wrong translation that every run must reject (gating: an accepted one is a machinery failure)."""
    res = common.run_real("w_convert", [{"src": "\n".join(it[0]), "opts": it[1]} for it in items], shards=1)
    cases = []
    for it, r in zip(items, res):
        lines, opts, scripts, old, new = it
        if "out" not in r or old not in r["out"]:
            # the tree under test does not produce the text this canary corrupts (a changed translator): nothing to corrupt
            rep.count("fixed_canaries_skipped")
            continue
        r2 = {"out": r["out"].replace(old, new, 1)}
        c = gen.program_case(len(cases) + 1, lines, opts, scripts, 200, r2, {"tag": "canary"})
        if extra:
            c.update(extra)
        if opts.get("default_str_storage", 32) != 32:
            c["cut"] = True
        cases.append(c)
    if not cases:
        return
    vds = common.judge(module, cases, rep, wd)
    bad = [(c["srctext"], c["outtext"]) for c, v in zip(cases, vds) if v["ok"]]
    rep.count("fixed_canaries", len(cases))
    rep.count("fixed_canaries_rejected", len(cases) - len(bad))
    if bad:
        raise common.MachineryError("canary accepted (the specification failed to reject a wrong translation): %r" % (bad[0],))
