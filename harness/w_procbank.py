"""Worker: push library text + program text through the real coco.b09.procbank.ProcedureBank.

in : [{"lib": str, "prog": str, "name": str, "size": int}]
out: [{"out": str} | {"exc": type-name, "msg": str}]
"""
import json
import sys

from coco.b09.procbank import ProcedureBank  # noqa: E402


def one(c):
    try:
        bank = ProcedureBank(default_str_storage=c.get("size", 32))
        bank.add_from_str(c["lib"])
        bank.add_from_str(c["prog"])
        return {"out": bank.get_procedure_and_dependencies(c["name"])}
    except BaseException as ex:  # noqa: BLE001
        return {"exc": type(ex).__name__, "msg": str(ex)[:200]}


def main():
    with open(sys.argv[1]) as f:
        cases = json.load(f)
    with open(sys.argv[2], "w") as f:
        json.dump([one(c) for c in cases], f)


if __name__ == "__main__":
    main()
