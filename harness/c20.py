"""C20 - bundled string helpers compute the Color BASIC function they stand for.

spec/Trace_C20.tla takes the text of ecb_instr, ecb_string and ecb_read_filter from the library of the working tree,
parses it with the BASIC09 grammar and executes it on the BASIC09 machine for every argument tuple of the stated space
(TLC enumerates the arguments: this is model checking of a BASIC09 program for all inputs); the result parameter is
compared with the definition of INSTR, STRING$ and the numeric value of a DATA item.
"""
import os

from harness import common

PID = "C20"


def main():
    rep = common.Report(PID)
    thorough = common.tier() == "thorough"
    wd = common.workdir(PID)
    cfg = os.path.join(wd, "c20.cfg")
    with open(cfg, "w") as f:
        f.write("CONSTANTS\n  Alphabet = %s\n  MaxLenS = %d\n  MaxStart = %d\n  MaxCount = 255\n  StrSize0 = 32\nINIT Init\nNEXT Next\nCHECK_DEADLOCK FALSE\n" % (
            "{97, 98, 99}" if thorough else "{97, 98}", 4 if thorough else 3, 6 if thorough else 4))
    r = rep.tlc(common.run_tlc("Trace_C20", cfg=cfg, env={"LIBTOKS": common.lib_tokens_file(wd)}, wd=wd, timeout=3000))
    n = 0
    for st in r.states:
        vd = common.tlaval(st["vd"])
        if vd.get("clause") == "todo":
            continue
        n += 1
        fn = common.tlaval(st["fn"])
        rep.count("runs:" + fn)
        if vd["clause"] == "unjudged":
            rep.count("unjudged:" + vd["key"])
        elif vd["ok"]:
            rep.count("accepted")
            if n % 97 == 0:
                rep.sample({"call": vd["detail"], "verdict": "ok"}, cap=8)
        else:
            rep.count("rejected")
            rep.bad(vd["key"], vd["detail"], {"call": vd["detail"], "verdict": vd})
    rep.cov["traces_validated_against_impl"] = n
    if n < 100:
        raise common.MachineryError("only %d library runs were judged" % n)
    return rep.finish({"exhaustive": True, "bounds": {"alphabet": "abc" if thorough else "ab", "string_length": 4 if thorough else 3, "start": "1..%d" % (6 if thorough else 4), "count": "0..255"}})


if __name__ == "__main__":
    common.main_wrap(main)
