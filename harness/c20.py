"""C20 - bundled string helpers compute the Color BASIC function they stand for.

spec/Trace_C20.tla takes the text of ecb_instr, ecb_string and ecb_read_filter from the library of the working tree,
parses it with the BASIC09 grammar and executes it on the BASIC09 machine for every argument tuple of the stated space
(TLC enumerates the arguments: this is model checking of a BASIC09 program for all inputs); the result parameter is
compared with the definition of INSTR, STRING$ and the numeric value of a DATA item.
"""
import os

from harness import common

PID = "C20"


def main():
    rep = common.Report(PID)
    thorough = common.tier() == "thorough"
    wd = common.workdir(PID)
    cfg = os.path.join(wd, "c20.cfg")
    with open(cfg, "w") as f:
        f.write("CONSTANTS\n  Alphabet = %s\n  MaxLenS = %d\n  MaxStart = %d\n  MaxCount = 255\n  StrSize0 = 32\nINIT Init\nNEXT Next\nCHECK_DEADLOCK FALSE\n" % (
            "{97, 98, 99}" if thorough else "{97, 98}", 4 if thorough else 3, 6 if thorough else 4))
    r = rep.tlc(common.run_tlc("Trace_C20", cfg=cfg, env={"LIBTOKS": common.lib_tokens_file(wd)}, wd=wd, timeout=3000))
    n = 0
    for st in r.states:
        vd = common.tlaval(st["vd"])
        if vd.get("clause") == "todo":
            continue
        n += 1
        fn = common.tlaval(st["fn"])
        rep.count("runs:" + fn)
        if vd["clause"] == "unjudged":
            rep.count("unjudged:" + vd["key"])
        elif vd["ok"]:
            rep.count("accepted")
            if n % 97 == 0:
                rep.sample({"call": vd["detail"], "verdict": "ok"}, cap=8)
        else:
            rep.count("rejected")
            rep.bad(vd["key"], vd["detail"], {"call": vd["detail"], "verdict": vd})
    rep.cov["traces_validated_against_impl"] = n
    # translator side of the read filter: with an empty item in the program every numeric DATA item is re-spelled as a string;
    # the string must denote the number the source spelled (spec/DataText.tla, normal form on digit sequences)
    mant = ["0", "1", "12", "255", "1.5", ".5", "0.25", "100", "1.25", "6.25", ".0000004", "0.0000125", "123456", "99999999", "1.000001", "12.", "0.1", "3.14159"]
    exps = ["", "E0", "E1", "E-1", "E3", "E-3", "E-5", "E-7", "E9", "E+9", "E16", "E-12", "E22"] + (["E-20", "E30", "E-4", "E4", "E15", "E17"] if thorough else [])
    spell = [sg + m + e for m in mant for e in exps for sg in (("", "-", "+", "--", "-+") if thorough else ("", "-"))]
    spell += ["&HFF", "&H0", "&H7FFF", "&H8000", "&HFFFF", "&H10", "1 E 3", "- 2.5", "1E- 5"]
    payload = [{"src": "10 DATA ,%s\n20 READ A,B\n" % sp, "opts": {}} for sp in spell]
    res = common.run_real("w_convert", payload)
    from harness import b09lex, gen
    cases = []
    for sp, r in zip(spell, res):
        if "out" not in r:
            rep.count("data-text:refused")
            continue
        strs = [t["s"] for l in b09lex.lex_text(r["out"]) if any(t["k"] == "id" and t["v"] == "DATA" for t in l) for t in l if t["k"] == "str"]
        cases.append({"id": len(cases) + 1, "src": gen.text_bytes(sp), "tgt": strs[1] if len(strs) == 2 else [], "found": 1 if len(strs) == 2 else 0,
                      "what": "DATA ,%s -> %s" % (sp, " ".join(l for l in r["out"].split("\n") if "DATA" in l.upper())[:80])})
    if len(cases) < 100:
        raise common.MachineryError("only %d DATA spellings were converted" % len(cases))
    # gating canary: the same number with its last decimal dropped must be rejected
    cases.append({"id": len(cases) + 1, "src": gen.text_bytes("1.25E-5"), "tgt": gen.text_bytes("0.000013"), "found": 1, "what": "canary"})
    # (M) the normal form itself is model-checked first: 8 160 decimal texts, eight invariants (independence of the spelling)
    empty = os.path.join(wd, "empty.json")
    with open(empty, "w") as f:
        f.write("[]")
    rm = rep.tlc(common.run_tlc("MC_DataText", cfg="MC_DataText.cfg", env={"CASES": empty}, wd=wd, dump=False))
    if "Error" in rm.out or rm.distinct < 8000:
        raise common.MachineryError("MC_DataText did not complete:\n" + rm.out[-1500:])
    rep.count("mc_datatext_states", rm.distinct)
    vds = common.judge("DataText", cases, rep, wd)
    if vds[-1]["ok"]:
        raise common.MachineryError("canary accepted: %r" % vds[-1])
    for c, v in zip(cases[:-1], vds[:-1]):
        n += 1
        rep.count("runs:data-text")
        if v["clause"] == "unjudged":
            rep.count("unjudged:" + v["key"])
        elif v["ok"]:
            rep.count("accepted")
        else:
            rep.count("rejected")
            rep.bad(v["key"], v["detail"], {"case": c, "verdict": v})
    rep.cov["traces_validated_against_impl"] = n
    if n < 100:
        raise common.MachineryError("only %d library runs were judged" % n)
    return rep.finish({"exhaustive": True, "bounds": {"alphabet": "abc" if thorough else "ab", "string_length": 4 if thorough else 3, "start": "1..%d" % (6 if thorough else 4), "count": "0..255"}})


if __name__ == "__main__":
    common.main_wrap(main)
