"""C15 - any input is either converted or refused with a documented error.

(G) spec/Mutate.tla enumerates mutation sequences (delete / duplicate / swap tokens, extreme literals) that the harness
applies to the tokens of every statement form; plus random token soups, option sets, configuration maps and input
file names for the command line.  (V) spec/Trace_C15.tla: the outcome must be a behaviour of the pipeline machine
(ok, grammar, undefined-or-duplicate, too-large, config); any other exception type or a timeout is rejected.
"""
import itertools
import os
import random
import json

from harness import common, gen, corpus, decblex, positions

PID = "C15"
EXTREME = [".", "1E", "1E99", "&H", "&HFFFFFF", "1234567890123456789012345678901234567890", "-", "\"", "1E-99", "&H FF", "..", "1.2.3", "- -2",
           "+-+3", "1E+", ".E5", "&HG", "99999", "0", "\"\"", ":", "(", ")", ",", "1E-", "2.5E-", "2.5E+", "7E -", "1 E", ".E", ".E-", "1.E", "1.E-", "-.", "+.E+",
           "& H", "&H 1 0", "1E--1", "1E1E1", "1..", "00.00", "1E-0", "0E0", "&H0", "&H00000", "&HFFFFF", "1E38", "1E39", "1E-39", "9" * 39]
VOCAB = ["10", "A", "B$", "=", "+", "(", ")", ",", ";", ":", "\"X\"", "PRINT", "IF", "THEN", "ELSE", "FOR", "TO", "NEXT", "GOTO", "DATA", "READ", "DIM",
         "INPUT", "REM", "1", "2.5", "&HF", "AND", "NOT", "INT", "LEFT$", "HCIRCLE", "-", "ON", "GOSUB", "STEP", "'", "?", "@", "\n20", "\n30", "PSET", "B"]


def tok_text(t):
    if t["k"] == "str":
        return '"%s"' % bytes(t["s"]).decode("latin-1")
    if t["k"] == "raw":
        return bytes(t["s"]).decode("latin-1")
    if t["k"] == "id":
        return bytes(t["s"]).decode("latin-1")
    return t["v"]


def apply(texts, muts):
    ts = list(texts)
    for kind, i, x in muts:
        if i > len(ts):
            return None
        if kind == "del":
            del ts[i - 1]
        elif kind == "dup":
            ts.insert(i - 1, ts[i - 1])
        elif kind == "swap":
            if i >= len(ts):
                return None
            ts[i - 1], ts[i] = ts[i], ts[i - 1]
        else:
            ts[i - 1] = EXTREME[x - 1]
    return ts


def situation(src):
    # the key's source half: which kind of lexeme the extreme literal / mutation produced (coarse, computed from the text)
    return "text"


def main():
    rep = common.Report(PID)
    T = common.tier()
    rng = random.Random(common.seed())
    wd = common.workdir(PID)
    thorough = T == "thorough"
    pal = corpus.palette()
    seeds = []
    for p in pal:
        body = p["text"]
        pre = {(): [], (0,): ["FOR I=1 TO 2"], (1,): ["FOR I=1 TO 2"], (2,): ["FOR J=1 TO 2"], (2, 1): ["FOR I=1 TO 2", "FOR J=1 TO 2"]}[tuple(p.get("close", []))]
        post = ["NEXT"] * len(p.get("open", []))
        seeds.append(["10 " + ":".join(pre + [body])] + (["20 " + ":".join(post)] if post else []) + corpus.TAIL)
    nmax = 14
    cfg = os.path.join(wd, "mut.cfg")
    with open(cfg, "w") as f:
        f.write("CONSTANTS\n  N = %d\n  MaxMut = %d\n  NExtreme = %d\nSPECIFICATION Spec\nINVARIANT LenOK\nCHECK_DEADLOCK FALSE\n" % (nmax, 2 if thorough else 1, len(EXTREME)))
    r = rep.tlc(common.run_tlc("Mutate", cfg=cfg, wd=wd, timeout=1800))
    mutseqs = [common.tlaval(st["muts"]) for st in r.states]
    mutseqs = [m for m in mutseqs if m]
    rep.count("mutation_sequences", len(mutseqs))
    plan = []      # (src, opts, expect, situation)
    for s in seeds:
        plan.append(("\n".join(s), {}, "ok", "unmutated"))
        first = s[0]
        toks = decblex.lex_program(first)[0]["toks"]
        texts = [tok_text(t) for t in toks][:nmax]
        tailtexts = [tok_text(t) for t in toks][nmax:]
        for m in gen.sample(rng, mutseqs, 400 if thorough else 26):
            ts = apply(texts, m)
            if ts is None:
                continue
            line = "10 " + " ".join(ts + tailtexts)
            kinds = "+".join(sorted({k for k, _, _ in m}))
            plan.append(("\n".join([line] + s[1:]), {}, "any", "mutated:" + kinds))
    for k in range(3000 if thorough else 400):
        n = rng.randint(1, 9)
        plan.append(("10 " + " ".join(rng.choice(VOCAB) for _ in range(n)), {}, "any", "token-soup"))
    for e in EXTREME:
        for tpl in ("10 A=%s", "10 PRINT %s", "10 DATA %s,", "10 DATA ,%s", "10 IF %s THEN 10", "10 DIM A(%s)", "10 A$=%s", "10 FOR I=%s TO 2:NEXT", "10 POKE %s,1",
                    "10 ON %s GOTO 10", "10 A=1:%s", "%s", "10 HCIRCLE(%s,1),2", "10 READ %s"):
            plan.append((tpl % e, {}, "any", "extreme-literal"))
    for text in ["", "\n", "10", "10 ", " ", "\x00", "10 A=1\x00", "10 A=1\n\n\n20 B=2\n", "10 A=1\r\n20 B=2\r\n", "65535 A=1", "99999999999 A=1", "10 A=1\n10 B=2",
                 "20 A=1\n10 B=2", "10 GOTO 99999", "10 GOTO 40000", "32700 A=1", "10 ON ERR GOTO 10:ON ERR GOTO 10", "10 " + "A=1:" * 300 + "B=2",
                 "10 A=" + "(" * 40 + "1" + ")" * 40, "10 A=" + "-" * 30 + "1", "10 PRINT " + "\"X\";" * 200, "10 REM " + "X" * 5000]:
        plan.append((text, {}, "any", "edge-text"))
    # every arrangement of FOR and NEXT forms, balanced or not (a NEXT naming more variables than there are open loops, ...)
    loopforms = ["FOR I=1 TO 2", "FOR J=1 TO 2", "NEXT", "NEXT I", "NEXT J", "NEXT I,J", "NEXT J,I", "NEXT J,I,I", "A=1"]
    for n in range(1, 5 if thorough else 4):
        for combo in itertools.product(loopforms, repeat=n):
            if any(c.startswith("NEXT") for c in combo):
                plan.append(("10 " + ":".join(combo), {}, "any", "loop-structure"))
                if n == 2:
                    plan.append(("10 %s\n20 %s" % combo, {}, "any", "loop-structure"))
    # every statement form cut off after each of its tokens (a dangling comma, an open parenthesis, a missing operand)
    for s in seeds:
        toks = [tok_text(t) for t in decblex.lex_program(s[0])[0]["toks"]]
        for k in range(1, len(toks)):
            plan.append(("\n".join(["10 " + " ".join(toks[:k])] + s[1:]), {}, "any", "cut-short"))
    # every expression position with a function that becomes a procedure call in it, in the places where the statement
    # has no statement before it to attach to: first of the program (with and without the standard prologue), after a
    # comment, after DATA, after a line with only a label-less jump
    for nm, lines in positions.NUM_POSITIONS + positions.STR_POSITIONS:
        filler = ("{s}", "STR$(A)") if any("{s}" in l for l in lines) else ("{n}", "INT(A)")
        body = positions.fill(lines, *filler)
        for before in ([], ["1 REM X"], ["1 'X"], ["1 DATA 1,2"], ["1 GOTO 2", "2 END"], ["1 DIM Q(2)"], ["1 CLEAR 200"], ["1 A=1"]):
            prog = before + ["7 DIM C(9),D(2,9)"] * (1 if before == ["1 A=1"] else 0) + body + ([] if any(l.startswith("90 ") for l in body) else ["90 END"])
            for o in ({}, {"add_standard_prefix": False}):
                plan.append(("\n".join(prog), dict(o), "ok" if before != [] or True else "any", "first-statement"))
    # option sets on valid programs
    payload = []
    for i, (src, o, exp, sit) in enumerate(plan):
        oo = dict(o)
        if i % 3 == 0:
            oo = corpus.option_sets(rng, 1, pdeps=0.1)[0]
        payload.append({"src": src, "opts": oo, "timeout": 10})
    res = common.run_real("w_convert", payload, timeout=3000)
    # a conversion that hit the alarm is repeated alone with a longer alarm (a hang persists, a loaded machine does not)
    late = [k for k, r in enumerate(res) if r.get("exc") == "TIMEOUT"]
    if late:
        again = common.run_real("w_convert", [dict(payload[k], timeout=90) for k in late], shards=1, timeout=3000)
        for k, r in zip(late, again):
            res[k] = r
        rep.count("conversions_repeated_after_alarm", len(late))
    cases, meta = [], []
    for (src, o, exp, sit), pl, r in zip(plan, payload, res):
        outcome = "ok" if "out" in r else ("timeout" if r.get("exc") == "TIMEOUT" else r.get("outcome", "other:?"))
        cases.append({"id": len(cases) + 1, "outcome": outcome, "expect": exp, "situation": sit})
        meta.append((src, pl["opts"], r.get("msg", "")))
    # ---- command line: file names, configuration files ----
    names = ["a", "A1", "a_b", "a-b", "-a", "a-", "_", "1", "a.b", "my-prog.v2", "x y", "prog", "Z_9", "a--b", "ab-",
             "ecb_cls", "ecb_str", "_ecb_start", "_ecb_text_address", "ecb_play", "_ecb_width", "ECB_CLS", "program"]
    if thorough:
        alpha = "aZ0_-"
        names += ["".join(p) for k in (1, 2, 3) for p in itertools.product(alpha, repeat=k)]
    clip = []
    for nm in names:
        for flags in ([], ["-D"]):
            clip.append({"src": "10 PRINT \"HI\":CLS\n", "stem": nm, "flags": flags})
    cfgs = [("string_configs:\n  strname_to_size:\n    A$: 100\n", "ok"), ("string_configs:\n  strname_to_size:\n    A: 3\n", "config"),
            ("string_configs:\n  strname_to_size:\n    AAA$: 1\n", "config"), ("string_configs:\n  strname_to_size:\n    A$: 0\n", "config"),
            ("string_configs:\n  strname_to_size:\n    B$(): 22\n", "ok"), ("{}\n", "ok")]
    cfgfiles = []
    for k, (y, _) in enumerate(cfgs):
        pth = os.path.join(wd, "cfg%d.yaml" % k)
        with open(pth, "w") as f:
            f.write(y)
        cfgfiles.append(pth)
        clip.append({"src": "10 DIM A$,B$(3)\n20 A$=\"X\"\n", "stem": "prog", "flags": ["-c", pth, "-s", "80"]})
    cres = common.run_real("w_cli", clip)
    for c, r in zip(clip, cres):
        if "bytes" in r:
            outcome = "ok"
        else:
            import harness.w_convert as wc
            outcome = wc.outcome_class(r.get("exc", "?"), r.get("mod", ""))
        iscfg = "-c" in c["flags"]
        exp = "any"
        if iscfg:
            exp = {"ok": "ok", "config": "refuse"}[cfgs[cfgfiles.index(c["flags"][1])][1]]
        cases.append({"id": len(cases) + 1, "outcome": outcome, "expect": exp, "situation": "config-file" if iscfg else "cli-file-name"})
        meta.append(("[command line] stem=%r flags=%s" % (c["stem"], c["flags"]), {}, r.get("msg", "")))
    path = os.path.join(wd, "cases.json")
    with open(path, "w") as f:
        json.dump(cases, f)
    rv = rep.tlc(common.run_tlc("Trace_C15", env={"CASES": path}, wd=wd))
    per = {}
    for st in rv.states:
        vd = common.tlaval(st["vd"])
        if vd.get("clause") in ("todo", "skip"):
            continue
        per.setdefault(common.tlaval(st["ci"]), vd)
    if len(per) != len(cases):
        raise common.MachineryError("no verdict for %d cases" % (len(cases) - len(per)))
    for ci, vd in per.items():
        rep.cov["traces_validated_against_impl"] += 1
        c = cases[ci - 1]
        rep.count("outcome:" + c["outcome"])
        rep.count("family:" + c["situation"].split(":")[0])
        if vd["ok"]:
            rep.sample({"src": meta[ci - 1][0][:200], "opts": meta[ci - 1][1], "outcome": c["outcome"]}, cap=6)
        else:
            rep.bad(vd["key"], "%r {%s} -> %s %s" % (meta[ci - 1][0][:300], meta[ci - 1][1], c["outcome"], meta[ci - 1][2][:150]),
                    {"src": meta[ci - 1][0], "opts": meta[ci - 1][1], "outcome": c["outcome"]})
    # gating canary: an internal exception must be rejected by the machine
    cpath = os.path.join(wd, "canary.json")
    with open(cpath, "w") as f:
        json.dump([{"id": 1, "outcome": "other:KeyError", "expect": "any", "situation": "canary"}, {"id": 2, "outcome": "timeout", "expect": "any", "situation": "canary"},
                   {"id": 3, "outcome": "grammar", "expect": "ok", "situation": "canary"}, {"id": 4, "outcome": "grammar", "expect": "any", "situation": "canary"}], f)
    rc = common.run_tlc("Trace_C15", env={"CASES": cpath}, wd=wd)
    got = {}
    for st in rc.states:
        vd = common.tlaval(st["vd"])
        if vd.get("clause") not in ("todo", "skip"):
            got.setdefault(common.tlaval(st["ci"]), vd["ok"])
    if got != {1: False, 2: False, 3: False, 4: True}:
        raise common.MachineryError("canary verdicts wrong: %r" % got)
    rep.count("canaries", 4)
    return rep.finish({"exhaustive": False, "mutations_per_sequence": 2 if thorough else 1})


if __name__ == "__main__":
    common.main_wrap(main)
