"""C13 - the emitted bundle contains exactly the procedures the program needs.

(M) spec/Bundle.tla: for every one of the 65536 graphs over 4 nodes the worklist algorithm terminates with the
    reachable set, each node once, dependencies ascending, root last (TLC, invariants + liveness).
(G) the same graphs (dumped initial states) are rendered to synthetic libraries and pushed through the real
    ProcedureBank; user programs with every subset of runtime-using statements and with string literals, DATA items
    and comments that spell RUN / PROCEDURE / the placeholder go through convert(output_dependencies=True).
(V) spec/Trace_C13.tla parses the bundle with the BASIC09 grammar and checks the clauses.
"""
import itertools
import random

from harness import common, gen, b09lex, c04

PID = "C13"
NAMES = {0: "prog", 1: "pa", 2: "pa2", 3: "p_c3"}      # one name a prefix of another, digits, underscore
USES = ["CLS", "PRINT A", "Z=INT(A)", "PLAY \"C\"", "SOUND 1,2", "HSCREEN 2", "HCIRCLE(1,2),3", "INPUT A", "Z$=INKEY$", "HPRINT(1,2),\"X\"",
        "LOCATE 1,2", "Z=VAL(A$)", "Z=INSTR(1,A$,\"A\")", "PALETTE 1,2", "HBUFF 1,10", "Z=JOYSTK(0)", "WIDTH 40", "Z$=STRING$(3,\"A\")"]
USES += ["A$=STRING$(3,\"(*\")", "PLAY \"(*\"", "Z=INSTR(1,A$,\"(* X *)\")+VAL(\"REM\")", "HPRINT(1,2),\"(*\":SOUND 1,2",
         "Z=INT(A)+VAL(A$)", "Z$=HEX$(3)+STR$(4)", "HPRINT(1,2),3", "PRINT A;INSTR(1,A$,\"A\")", "Z=BUTTON(0)+JOYSTK(1)+POINT(1,2)",
         "IF INKEY$=\"A\" THEN SOUND 1,2 ELSE PLAY \"C\"", "CLS:LOCATE 1,2:ATTR 1,2", "FOR I=INT(A) TO VAL(A$):HSET(I,1,2):NEXT"]
DECOYS_CTRL = ["PRINT \"PAGE\x0cRUN ecb_sound\x0cEND\"", "A$=\"X\x1cPROCEDURE ecb_fake\x1cY\"", "DATA A\x0bRUN ecb_play\x0bB,\"C\x1dD\"", "REM \x1eRUN ecb_hdraw\x1e"]
DECOYS = ["PRINT \"RUN ecb_play\"", "A$=\"procedure zz\"", "DATA RUN ecb_sound, PROCEDURE x", "REM RUN ecb_play", "'RUN ecb_hdraw(1)",
          "PRINT \": STRING<<>>\"", "DATA : STRING<<>>", "A$=\"RUN ecb_play\":B$=\"x\"", "PRINT \"A\";\"RUN ecb_cls\"", "REM : STRING<<>>",
          "DATA \"RUN ecb_hscreen\",RUN ecb_point"]


def b09lex_text(c):
    """the lines of a lexed case that mention the placeholder (diagnostics)"""
    return [" ".join(t.get("o", t["v"]) if isinstance(t.get("o", t["v"]), str) else str(t["v"]) for t in l) for l in c["out"] if any(t["v"] == "<<>>" for t in l)][:3]


def graphs(rep, wd, thorough, rng):
    r = rep.tlc(common.run_tlc("Bundle", cfg="MC_Bundle.cfg", wd=wd, timeout=900))
    if "Error" in r.out or "violated" in r.out:
        raise common.MachineryError("MC_Bundle failed:\n" + r.out[-2000:])
    rep.count("mc_bundle_states", r.distinct)
    init = [st for st in r.states if st.get("visited") == "{}" and st.get("out") == "<<>>" and st.get("pending") == "<<0>>"]
    gs = [sorted(tuple(e) for e in common.tlaval(st["edges"])) for st in init]
    gs = sorted(set(tuple(g) for g in gs))
    rep.count("graphs_enumerated", len(gs))
    if not thorough:
        small = [g for g in gs if all(3 not in e for e in g)]           # all graphs over 3 nodes
        gs = small + gen.sample(rng, [g for g in gs if g not in set(small)], 500)
    return gs


def synth(g):
    lib = ""
    for n in (3, 1, 2):          # library order is not the output order
        lib += "procedure %s\nparam x: real\n" % NAMES[n]
        for a, b in g:
            if a == n:
                lib += "run %s(x)\n" % NAMES[b]
        lib += "x = x + 1\n\n"
    prog = "procedure prog\n" + "".join("RUN %s(1.0)\n" % NAMES[b] for a, b in g if a == 0) + "PRINT \"done\""
    return lib, prog


def main():
    rep = common.Report(PID)
    T = common.tier()
    rng = random.Random(common.seed())
    wd = common.workdir(PID)
    thorough = T == "thorough"
    cases, meta = [], []
    # ---- (a) synthetic libraries through the real ProcedureBank ----
    gs = graphs(rep, wd, thorough, rng)
    payload = []
    for g in gs:
        lib, prog = synth(g)
        payload.append({"lib": lib, "prog": prog, "name": "prog", "size": 32})
    res = common.run_real("w_procbank", payload)
    for g, p, r in zip(gs, payload, res):
        if "out" not in r:
            rep.bad("exception:" + r.get("exc", "?"), "graph %s -> %s" % (g, r), {"graph": g, "result": r})
            continue
        cases.append({"id": len(cases) + 1, "out": b09lex.lex_text(r["out"], orig=True), "libkind": "synthetic",
                      "lib": b09lex.lex_text(p["lib"], orig=True), "root": "PROG", "size": 32, "mentions": "",
                      "plain": b09lex.lex_text(p["prog"].split("\n", 1)[1], orig=True)})
        meta.append(("graph %s" % (g,), r["out"]))
    # ---- (b) real programs through convert(output_dependencies=True) ----
    plan = []
    # every device statement form on its own (every runtime procedure the translator can call), then subsets
    dev = []
    for form in c04.FORMS:
        st = c04.instantiate(form, ["lit"] * c04.nslots(form), "lit")
        if st not in dev:
            dev.append(st)
    rep.count("device_forms", len(dev))
    subsets = [()] + [(u,) for u in USES] + [(d,) for d in dev] + gen.sample(rng, list(itertools.combinations(USES, 2)), 40 if thorough else 8) \
        + gen.sample(rng, list(itertools.combinations(USES, 3)), 60 if thorough else 6)
    for k, sub in enumerate(subsets):
        for size in ((32, 80, 16) if thorough or k % 4 == 0 else ((32, 16, 80)[k % 3],)):
            plan.append((list(sub), size, rng.choice(["prog", "a_b", "x1", "Game"]), ""))
    for d in DECOYS + DECOYS_CTRL:
        for size in (32, 80):
            plan.append(([d, rng.choice(USES)], size, "prog", "comment" if d.startswith(("REM", "'")) else "DATA" if d.startswith("DATA") else "string-literal"))
    # line numbers of one to five digits
    srcs = ["\n".join("%d %s" % ((10 * (i + 1), 12000 + 7 * i, i)[k % 3], s) for i, s in enumerate(stmts)) if stmts else "10 END"
            for k, (stmts, _, _, _) in enumerate(plan)]
    # (every fourth program without the standard prologue: its procedures are then reachable only through the program's own calls)
    res1 = common.run_real("w_convert", [{"src": s, "opts": {"output_dependencies": True, "procname": nm, "default_str_storage": sz, "add_standard_prefix": i % 4 != 3}}
                                         for i, (s, (_, sz, nm, _)) in enumerate(zip(srcs, plan))])
    res0 = common.run_real("w_convert", [{"src": s, "opts": {"output_dependencies": False, "default_str_storage": sz, "add_standard_prefix": i % 4 != 3}}
                                         for i, (s, (_, sz, nm, _)) in enumerate(zip(srcs, plan))])
    for s, (stmts, sz, nm, mentions), r1, r0 in zip(srcs, plan, res1, res0):
        if "out" not in r1 or "out" not in r0:
            rep.count("refused")
            continue
        cases.append({"id": len(cases) + 1, "out": b09lex.lex_text(r1["out"], orig=True), "libkind": "real", "lib": [], "root": nm.upper(),
                      "size": sz, "mentions": mentions, "plain": b09lex.lex_text(r0["out"], orig=True)})
        meta.append(("%s {size=%d,procname=%s}" % (s.replace("\n", " | "), sz, nm), r1["out"]))
    vds = common.judge("Trace_C13", cases, rep, wd, maxbytes=5_000_000)
    ok = []
    for (what, out), v, c in zip(meta, vds, cases):
        rep.cov["traces_validated_against_impl"] += 1
        rep.count("kind:" + c["libkind"])
        if v["clause"] == "unjudged":
            rep.count("unjudged:" + v["key"])
        elif v["ok"]:
            rep.count("accepted")
            ok.append((what, out, c))
            rep.sample({"case": what, "procedures_in_bundle": v["detail"], "verdict": "ok"}, cap=6)
        else:
            rep.count("rejected")
            hdrs = [l for l in out.split("\n") if l.lower().startswith("procedure")]
            rep.bad(v["key"], "%s -> %s [%s]" % (what, ", ".join(hdrs)[:300], v["detail"]), {"case": what, "out": out, "verdict": v})
    # ---- gating canaries: remove one dependency / add an unneeded one / reorder / leave a placeholder ----
    picked = []
    for what, out, c in ok:
        procs = out.split("\nprocedure ")
        if c["libkind"] == "real" and len(procs) >= 3:
            k = len(picked) % 4
            if k == 0:
                out2 = "\nprocedure ".join(procs[:1] + procs[2:])                         # drop a dependency
            elif k == 1:
                out2 = "procedure ecb_zzz\nparam x: real\nx = 1\n" + out                   # unneeded extra
            elif k == 2:
                out2 = "\nprocedure ".join([procs[0].replace("procedure ", "", 1)] if False else procs[:1] + [procs[2], procs[1]] + procs[3:])
            else:
                # (not in a program whose own literals spell the placeholder: the first ": STRING" may then be user text)
                out2 = out.replace(": STRING", ": STRING<<>>", 1) if ": STRING" in out and "STRING<<>>" not in out else None
            if out2 and out2 != out:
                picked.append(dict(c, out=b09lex.lex_text(out2, orig=True)))
        if len(picked) >= 24:
            break
    if len(picked) < 6:
        raise common.MachineryError("too few canaries")
    cv = common.judge("Trace_C13", picked, rep, wd, maxbytes=5_000_000)
    rej = sum(1 for v in cv if not v["ok"])
    rep.count("canaries", len(picked))
    rep.count("canaries_rejected", rej)
    if rej < len(picked):
        which = [(k % 4, b09lex_text(picked[k])) for k, v in enumerate(cv) if v["ok"]]
        raise common.MachineryError("canaries: %d of %d corrupted bundles were accepted (kinds %r)" % (len(picked) - rej, len(picked), which))
    return rep.finish({"exhaustive": thorough, "graph_nodes": 4})


if __name__ == "__main__":
    common.main_wrap(main)
