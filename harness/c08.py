"""C08 - source layout does not change the translation.

spec/Layout.tla enumerates the layout space (blanks 0..2 at every token boundary with the alphanumeric minimum, uniform
layouts and all deviations at up to two boundaries; line-end styles, blank lines, trailing NUL, ? for PRINT); the
harness renders every statement form under these layouts and runs the real convert(); spec/Trace_C08.tla demands one
outcome and one output per abstract program, and unchanged bytes in literals, DATA items and comments.
"""
import hashlib
import os
import random
import re

from harness import common, gen, corpus, decblex, b09lex
from harness.c15 import tok_text

PID = "C08"
NUMSPLIT = re.compile(r"^(\d*\.?\d*)(E)([+-]?)(\d*)$")
CLEARCMT = re.compile(r"\(\* CLEAR[^*\n]*\*\)")
MULTI = [
    ["10 A=1:PRINT A", "20 IF A=1 THEN 10", "30 END"],
    ["10 FOR I=1 TO 3", "20 PRINT I;\" X \"", "30 NEXT I"],
    ["10 DATA 1, TWO ,\"A B\"", "20 READ A,B$,C$", "30 REM  KEEP   THIS "],
    ["10 A$=\" SP ACE \":B=&HFF+1.5E2", "20 ?A$;B"],
]


# literal x following keyword: Color BASIC needs no blank between a number and a keyword (2.5ELSE, 1TO 2STEP 1, THEN20)
ADJ_LITS = ["2", "2.5", "2.", ".5", "1E2", "1.5E1"]
ADJACENT = [["10 IF A=1 THEN B=%s ELSE C=3" % l for l in ADJ_LITS[:1]] + ["20 END"]] + [
    p for l in ADJ_LITS for p in (
        ["10 IF A=1 THEN B=%s ELSE C=%s" % (l, l)], ["10 IF A=%s THEN 10 ELSE 10" % l], ["10 IF A=%s OR B=%s AND C THEN B=1" % (l, l)],
        ["10 FOR I=%s TO %s STEP %s:NEXT" % (l, l, l)], ["10 ON %s GOTO 10,10" % l], ["10 ON %s GOSUB 10" % l], ["10 IF A THEN B=%s:GOTO 10" % l],
        ["10 IF A THEN PRINT %s ELSE PRINT %s;" % (l, l)], ["10 IF A=1 THEN IF B=%s THEN C=%s ELSE D=%s ELSE E=%s" % (l, l, l, l)])]


def layout_tokens(line):
    """-> [(text, kind)] with kind: 't' ordinary, 'lit' inside-literal continuation (boundary before it may be 0), 'fix' (boundary before it fixed at 0),
    'n' number or last part of one, 'k' keyword (no blank is needed between a number and a keyword)"""
    m = decblex.LINE.match(line)
    out = [(m.group(1), "n")]
    toks = decblex.lex_body(m.group(2))
    prev = None
    for t in toks:
        text = tok_text(t)
        if t["k"] == "num" and NUMSPLIT.match(text) and "E" in text:
            g = NUMSPLIT.match(text).groups()
            parts = [p for p in g if p != ""]
            out.append((parts[0], "n"))
            out.extend((p, "lit") for p in parts[1:])
            if parts[-1][-1:].isdigit():
                out[-1] = (parts[-1], "litn")
        elif t["k"] == "hex":
            digits = text.replace(" ", "")[2:]
            out.extend([("&", "t"), ("H", "lit"), (digits, "lit")])
        elif t["k"] == "raw":
            out.append((text, "fix"))
        else:
            kind = "n" if t["k"] == "num" else "k" if t["k"] == "kw" and text[-1:].isalpha() else "t"
            if prev is not None and prev["k"] == "raw":
                kind = "fix"             # blanks after an unquoted DATA item are part of the item
            out.append((text, kind))
        prev = t
    return out


def minblanks(a, b, kind, akind="t"):
    if kind == "fix":
        return -1
    if kind in ("lit", "litn"):
        return 0
    if (akind in ("n", "litn") and kind == "k") or (akind == "k" and kind == "n"):
        return 0
    return 1 if (a[-1:].isalnum() or a[-1:] == "$") and b[:1].isalnum() else 0


def render(lines_tokens, base, dev, style):
    out_lines = []
    pos = 0
    for toks in lines_tokens:
        s = ""
        for k, (text, kind) in enumerate(toks):
            if k > 0:
                pos += 1
                mn = minblanks(toks[k - 1][0], text, kind, toks[k - 1][1])
                if mn < 0:
                    n = 0
                else:
                    want = dict(dev).get(pos, base)
                    n = max(want, mn)
                s += " " * n
            if style["q"] and text == "PRINT":
                text = "?"
            s += text
        out_lines.append(s)
    le = {"LF": "\n", "CR": "\r", "CRLF": "\r\n"}[style["le"]]
    sep = le
    if style["blank"] == "empty":
        sep = le + le
    elif style["blank"] == "blanks":
        sep = le + "  " + le
    text = sep.join(out_lines) + le
    if style["blank"] != "none":
        text = ("" if style["blank"] == "empty" else "  ") + le + text
    if style["nul"]:
        text += "\x00"
    return text


def what_of(base, dev, style):
    plain = {"le": "LF", "blank": "none", "nul": 0, "q": 0}
    diff = [k for k in plain if style[k] != plain[k]]
    if len(diff) > 1:
        return "all-global-choices-combined"
    if diff == ["le"]:
        return "line-end-" + style["le"]
    if diff == ["blank"]:
        return "blank-line-of-blanks" if style["blank"] == "blanks" else "empty-line"
    if diff == ["nul"]:
        return "trailing-NUL"
    if diff == ["q"]:
        return "question-mark-for-PRINT"
    return "blanks"


def main():
    rep = common.Report(PID)
    T = common.tier()
    rng = random.Random(common.seed())
    wd = common.workdir(PID)
    thorough = T == "thorough"
    nmax = 26
    cfg = os.path.join(wd, "layout.cfg")
    with open(cfg, "w") as f:
        f.write("CONSTANTS\n  N = %d\n  MaxDev = 2\nSPECIFICATION Spec\nINVARIANT DevOK\nCHECK_DEADLOCK FALSE\n" % nmax)
    r = rep.tlc(common.run_tlc("Layout", cfg=cfg, wd=wd))
    layouts = []
    for st in r.states:
        sty = common.tlaval(st["style"])
        layouts.append((common.tlaval(st["base"]), [tuple(d) for d in common.tlaval(st["dev"])], sty))
    rep.count("layouts_enumerated", len(layouts))
    uniform = [l for l in layouts if not l[1] and l[2] == {"le": "LF", "blank": "none", "nul": 0, "q": 0}]
    styled = [l for l in layouts if l[2] != {"le": "LF", "blank": "none", "nul": 0, "q": 0}]
    deviating = [l for l in layouts if l[1]]
    pal = corpus.palette()
    programs = []
    for p in pal:
        body = p["text"]
        pre = {(): [], (0,): ["FOR I=1 TO 2"], (1,): ["FOR I=1 TO 2"], (2,): ["FOR J=1 TO 2"], (2, 1): ["FOR I=1 TO 2", "FOR J=1 TO 2"]}[tuple(p.get("close", []))]
        post = ["NEXT"] * len(p.get("open", []))
        programs.append(["10 " + ":".join(pre + [body])] + (["20 " + ":".join(post)] if post else []) + corpus.TAIL[:1] + ["910 RETURN", "920 RETURN"])
    # every statement that may be followed by another one, followed by one (blanks before the colon, keywords before a colon)
    for p in pal:
        if not p.get("last") and not p.get("open") and not p.get("close"):
            programs.append(["10 " + p["text"] + ":B=B+1"] + corpus.TAIL[:1] + ["910 RETURN", "920 RETURN"])
    npal = len(programs)
    programs += ADJACENT
    programs += MULTI
    plan, owner = [], []
    for pi, prog in enumerate(programs):
        lt = [layout_tokens(l) for l in prog]
        nb = sum(len(t) - 1 for t in lt)
        chosen = list(uniform)
        dv = [l for l in deviating if all(i <= nb for i, _ in l[1])]
        chosen += dv if thorough else gen.sample(rng, dv, 24)
        chosen += styled if (thorough or pi % 6 == 0 or pi >= npal) else gen.sample(rng, styled, 5)
        seen = set()
        for base, dev, sty in chosen:
            text = render(lt, base, dev, sty)
            if text in seen:
                continue
            seen.add(text)
            plan.append({"src": text, "opts": {"add_standard_prefix": False}})
            owner.append((pi, what_of(base, dev, sty)))
    res = common.run_real("w_convert", plan)
    cases = []
    by = {}
    for (pi, what), pl, rr in zip(owner, plan, res):
        by.setdefault(pi, []).append((what, pl["src"], rr))
    meta = {}
    for pi, runs in sorted(by.items()):
        prog = programs[pi]
        canon = next((rr for w, s, rr in runs if "out" in rr), None)
        srcstr, outstr = [], []
        if canon:
            for ln in decblex.lex_program("\n".join(prog)):
                for t in ln["toks"]:
                    if t["k"] == "str" and t["s"]:
                        srcstr.append(t["s"])
                    if t["k"] == "raw" and t["s"] and any(c != 32 for c in t["s"]):
                        srcstr.append(t["s"])
            for l in b09lex.lex_text(canon["out"]):
                for t in l:
                    if t["k"] in ("str", "cmt"):
                        outstr.append(t["s"])
                        # an INPUT prompt gets "? " appended by the translation of INPUT (not a layout matter)
                        if t["k"] == "str" and t["s"][-2:] == [63, 32]:
                            outstr.append(t["s"][:-2])
                        # a comment is emitted as (*<text> *): the blank before *) is the translator's
                        if t["k"] == "cmt" and t["s"] and t["s"][-1] == 32:
                            outstr.append(t["s"][:-1])
            # numeric DATA items are re-spelled by the translator: only textual items are content here
            srcstr = [s for s in srcstr if not re.fullmatch(rb"[ 0-9.+\-EH&A-F]*", bytes(s))]
        cases.append({"id": len(cases) + 1, "srcstr": srcstr, "outstr": outstr,
                      "runs": [{"outcome": "ok" if "out" in rr else rr.get("outcome", "other:?"),
                                "hash": hashlib.sha1(rr["out"].encode("latin-1", "replace")).hexdigest() if "out" in rr else "",
                                "hashc": hashlib.sha1(CLEARCMT.sub(lambda m: m.group(0).replace(" ", ""), rr["out"]).encode("latin-1", "replace")).hexdigest() if "out" in rr else "",
                                "what": w} for w, s, rr in runs]})
        meta[len(cases)] = (prog, runs)
    vds = common.judge("Trace_C08", cases, rep, wd, shard=400)
    for c, v in zip(cases, vds):
        prog, runs = meta[c["id"]]
        rep.cov["traces_validated_against_impl"] += len(runs)
        if v["clause"] == "unjudged":
            rep.count("unjudged:" + v["key"])
        elif v["ok"]:
            rep.count("programs_accepted")
            rep.sample({"program": "\n".join(prog), "layouts": len(runs), "one_layout": runs[len(runs) // 2][1]}, cap=5)
        else:
            k = int(v["detail"]) - 1 if v["detail"].isdigit() else 0
            rep.bad(v["key"], "%s  layout %r -> %s" % (" | ".join(prog), runs[k][1][:200], runs[k][2].get("msg", runs[k][2].get("out", ""))[:160]),
                    {"program": prog, "layout": runs[k][1], "result": runs[k][2]})
    rep.count("abstract_programs", len(cases))
    # gating canaries: a case whose layouts disagree must be rejected
    can = [dict(cases[0], runs=cases[0]["runs"][:3] + [dict(cases[0]["runs"][0], hash="0" * 40, hashc="1" * 40)]),
           dict(cases[0], runs=cases[0]["runs"][:3] + [dict(cases[0]["runs"][0], outcome="grammar", hash="", hashc="")]),
           dict(cases[-1], srcstr=cases[-1]["srcstr"] + [[1, 2, 3]])]
    cv = common.judge("Trace_C08", can, rep, wd)
    if any(v["ok"] for v in cv):
        raise common.MachineryError("canary accepted: %r" % cv)
    rep.count("canaries", len(can))
    return rep.finish({"exhaustive": thorough, "max_deviating_boundaries": 2})


if __name__ == "__main__":
    common.main_wrap(main)
