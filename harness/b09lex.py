"""Lexer shim for BASIC09 text: bytes -> tokens.  Knows no grammar.

Token = {"k": kind, "v": text, "n": int, "d": int, "s": [bytes]} (uniform shape for TLC's JSON reader)
 kinds: int (decimal or $hex), real, big (numeric literal beyond the 32-bit model), str, ustr
        (unterminated string), id (upper-cased; may carry $ suffix and .field parts), op, cmt, bad
"""
import re
from fractions import Fraction

LIM = 30000

TOK = re.compile(r'''[ \t]*(?:
   (?P<real>\d+\.\d*(?:[Ee][+-]?\d+)?|\.\d+(?:[Ee][+-]?\d+)?|\d+[Ee][+-]?\d+)
  |(?P<int>\d+)
  |(?P<hex>\$[0-9A-Fa-f]+)
  |(?P<str>"(?:[^"]|"")*")
  |(?P<ustr>"[^"]*$)
  |(?P<cmt>\(\*.*$)
  |(?P<id>[A-Za-z_][A-Za-z_0-9]*\$?(?:\.[A-Za-z_][A-Za-z_0-9]*\$?)*)
  |(?P<op><<>>|:=|<>|><|<=|>=|=<|=>|\*\*|[-+*/^=<>(),;:\\\#\[\]])
  |(?P<bad>\S)
)''', re.X)


def tok(k, v, n=0, d=1, s=()):
    return {"k": k, "v": v, "n": n, "d": d, "s": list(s)}


def lex_line(line, orig=False):
    toks = []
    pos = 0
    line = line.rstrip("\r\n")
    while pos < len(line):
        m = TOK.match(line, pos)
        if not m:
            break
        k = m.lastgroup
        if k is None:
            break
        v = m.group(k)
        pos = m.end()
        if k == "id":
            up = v.upper()
            if up == "REM":
                toks.append(tok("cmt", line[m.start(k):]))
                break
            t = tok("id", up, s=up.encode("latin-1"))
            if orig:
                t["o"] = list(v.encode("latin-1"))
            toks.append(t)
        elif k == "int":
            n = int(v)
            toks.append(tok("int", v, n) if n <= LIM * 4 else tok("big", v))
        elif k == "hex":
            n = int(v[1:], 16)
            toks.append(tok("hexint", v.upper(), n) if n <= LIM * 4 else tok("big", v))
        elif k == "real":
            f = Fraction(v)
            if abs(f.numerator) <= LIM * 4 and f.denominator <= LIM:
                toks.append(tok("real", v.upper(), f.numerator, f.denominator))
            else:
                toks.append(tok("big", v.upper()))
        elif k == "str":
            body = v[1:-1].replace('""', '"')
            toks.append(tok("str", "", s=body.encode("latin-1", "replace")))
        elif k == "ustr":
            toks.append(tok("ustr", v))
        elif k == "cmt":
            body = v[2:-2] if v.endswith("*)") else v[2:]
            toks.append(tok("cmt", v, s=body.encode("latin-1", "replace")))
            break
        else:
            toks.append(tok(k, v))
    if orig:
        for t in toks:
            t.setdefault("o", [])
    return toks


def lex_text(text, orig=False):
    """All lines (blank lines kept as empty token lists so that line numbers stay meaningful).
    orig=True adds the original spelling of identifiers (field o) to every token."""
    return [lex_line(l, orig) for l in re.split(r"\r\n|\r|\n", text)]


def lex_nonblank(text):
    return [t for t in lex_text(text) if t]
