"""Lexer shim for Color BASIC source text: bytes -> tokens.  Knows no grammar.

Token = {"k","v","n","d","s"}; kinds: num, hex, big, str, id, kw, op, raw
 - id: v = the name Color BASIC distinguishes (first two characters + type suffix), s = bytes of the full spelling
 - kw: keywords and function names, matched greedily as the ROM's cruncher does
 - raw: the text of an unquoted DATA item or of a comment (s = bytes)
"""
import re
from fractions import Fraction

LIM = 30000

KEYWORDS = sorted("""ABS AND ASC ATN ATTR BRK BUTTON CHR$ CLS CLEAR CMP COS DATA DIM ELSE END ERNO ERR EXP FIX FOR
GOSUB GOTO HBUFF HCIRCLE HCLS HCOLOR HDRAW HEX$ HGET HLINE HPAINT HPRINT HPUT HRESET HSET HSCREEN IF INKEY$ INPUT INSTR INT
JOYSTK LEFT$ LEN LET LINE LOCATE LOG MID$ NEXT NOT ON OR PALETTE PEEK PLAY POINT POKE PRESET PRINT PSET READ REM RESET RESTORE
RETURN RGB RIGHT$ RND SET SGN SIN SOUND SQR STEP STOP STR$ STRING$ TAB TAN THEN TO TROFF TRON VAL VARPTR WIDTH XOR""".split(),
                  key=lambda w: -len(w))

NUM = re.compile(r"(\d+\.?\d*|\.\d*)( *(?!ELSE)E *[+-]? *\d*)?")      # as the ROM reads a number: 1E, 1E+, . are numbers
HEX = re.compile(r"& *H *([0-9A-F]+)")
IDENT = re.compile(r"[A-Z][A-Z0-9]*\$?")
OPS = ["<=", ">=", "<>", "=<", "=>", "><", "+", "-", "*", "/", "^", "=", "<", ">", "(", ")", ",", ";", ":", "@"]


def tok(k, v, n=0, d=1, s=()):
    return {"k": k, "v": v, "n": n, "d": d, "s": list(s)}


def canon(name):
    base = name[:-1] if name.endswith("$") else name
    return base[:2] + ("$" if name.endswith("$") else "")


def numtok(text):
    try:
        f = Fraction(text.replace(" ", ""))
    except (ValueError, ZeroDivisionError):
        return tok("big", text, s=text.encode("latin-1"))      # evaluated by the specification (TextVal)
    if abs(f.numerator) <= LIM * 4 and f.denominator <= LIM:
        return tok("num", text, f.numerator, f.denominator)
    return tok("big", text)


def lex_body(body):
    toks = []
    pos = 0
    n = len(body)
    while pos < n:
        c = body[pos]
        if c == " ":
            pos += 1
            continue
        if c == "'":
            toks.append(tok("kw", "REM"))
            toks.append(tok("raw", "", s=body[pos + 1:].encode("latin-1", "replace")))
            break
        if c == "?":
            toks.append(tok("kw", "PRINT"))
            pos += 1
            continue
        if c == '"':
            j = body.find('"', pos + 1)
            if j < 0:
                toks.append(tok("str", "", s=body[pos + 1:].encode("latin-1", "replace")))
                pos = n
            else:
                toks.append(tok("str", "", s=body[pos + 1:j].encode("latin-1", "replace")))
                pos = j + 1
            continue
        if c.isalpha():
            kw = next((w for w in KEYWORDS if body.startswith(w, pos)), None)
            if kw:
                toks.append(tok("kw", kw, s=kw.encode("latin-1")))
                pos += len(kw)
                if kw == "REM":
                    toks.append(tok("raw", "", s=body[pos:].encode("latin-1", "replace")))
                    break
                if kw == "DATA":
                    pos = lex_data(body, pos, toks)
                continue
            m = IDENT.match(body, pos)
            name = m.group(0)
            toks.append(tok("id", canon(name), s=name.encode("latin-1")))
            pos = m.end()
            continue
        m = HEX.match(body, pos)
        if m:
            v = int(m.group(1), 16)
            toks.append(tok("hex", m.group(0), v) if v <= LIM * 4 else tok("big", m.group(0)))
            pos = m.end()
            continue
        m = NUM.match(body, pos)
        if m and m.end() > pos and len(m.group(0).rstrip(" ")) > 0:
            toks.append(numtok(m.group(0).rstrip(" ")))
            pos = pos + len(m.group(0).rstrip(" "))
            continue
        op = next((o for o in OPS if body.startswith(o, pos)), None)
        if op:
            toks.append(tok("op", op))
            pos += len(op)
            continue
        toks.append(tok("op", c))
        pos += 1
    return toks


def lex_data(body, pos, toks):
    """items up to ':' outside quotes or end of line; blanks around an item are not part of it,
    except trailing blanks of an unquoted item (Color BASIC keeps them)"""
    n = len(body)
    while True:
        while pos < n and body[pos] == " ":
            pos += 1
        if pos < n and body[pos] == '"':
            j = body.find('"', pos + 1)
            if j < 0:
                j = n
            toks.append(tok("str", "", s=body[pos + 1:j].encode("latin-1", "replace")))
            pos = min(j + 1, n)
            while pos < n and body[pos] == " ":
                pos += 1
        else:
            j = pos
            while j < n and body[j] not in ",:":
                j += 1
            toks.append(tok("raw", "", s=body[pos:j].encode("latin-1", "replace")))
            pos = j
        if pos < n and body[pos] == ",":
            toks.append(tok("op", ","))
            pos += 1
            continue
        return pos


LINE = re.compile(r" *(\d+) *(.*)$")


def lex_program(text):
    """-> [{"num": n, "toks": [...]}] for every non-blank line"""
    out = []
    for raw in re.split(r"\r\n|\r|\n", text.rstrip("\x00")):
        if not raw.strip():
            continue
        m = LINE.match(raw)
        if not m:
            out.append({"num": -1, "toks": [tok("op", "?")]})
            continue
        out.append({"num": int(m.group(1)), "toks": lex_body(m.group(2))})
    return out
