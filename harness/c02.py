"""C02 - control flow of the translated program follows the source program.

(G) spec/GenProg.tla builds programs from a control-flow palette (lexically nested loops, unique ascending lines),
(V) spec/Trace_Refine.tla runs source and emitted text in lock step for every input and all four option settings.
"""
import random

from harness import common, gen, refcheck

PID = "C02"
I, J, K3 = 1, 2, 3
LOOPS = [
    {"text": "B=B+1"}, {"text": "FOR I=1 TO 2", "open": [I]}, {"text": "FOR J=1 TO 2", "open": [J]}, {"text": "FOR K=1 TO 2", "open": [K3]},
    {"text": "NEXT", "close": [0]}, {"text": "NEXT I", "close": [I]}, {"text": "NEXT J", "close": [J]}, {"text": "NEXT K", "close": [K3]},
    {"text": "NEXT J,I", "close": [J, I]}, {"text": "NEXT K,J", "close": [K3, J]}, {"text": "NEXT K,J,I", "close": [K3, J, I]},
]
PALETTE = [
    {"text": "B=B+1"}, {"text": "C=A+B"}, {"text": "PRINT B"},
    {"text": "IF A=1 THEN 90", "last": True, "grp": 1},
    {"text": "IF A=1 THEN B=1", "last": True, "grp": 1},
    {"text": "IF A=2 THEN B=1:C=C+2", "last": True, "grp": 1},
    {"text": "IF A=1 THEN B=1 ELSE B=2", "last": True, "grp": 1},
    {"text": "IF A=1 THEN 90 ELSE B=2:C=5", "last": True, "grp": 1},
    {"text": "IF A>1 THEN B=1 ELSE 90", "last": True, "grp": 1},
    {"text": "IF A=2 THEN 20 ELSE 90", "last": True, "grp": 1},
    {"text": "IF A=1 THEN B=1 ELSE IF A=2 THEN B=2", "last": True, "grp": 2},
    {"text": "IF A=1 THEN B=1 ELSE IF A=2 THEN B=2 ELSE B=3", "last": True, "grp": 2},
    {"text": "IF A=0 THEN 90 ELSE IF A=1 THEN C=1:B=4 ELSE IF A=2 THEN GOSUB 100 ELSE C=9", "last": True, "grp": 2},
    {"text": "IF A<2 THEN IF A=1 THEN B=1 ELSE B=2", "last": True, "grp": 2},
    {"text": "IF A<2 THEN B=7:IF A=1 THEN B=1:C=3", "last": True, "grp": 2},
    {"text": "IF A THEN GOSUB 100 ELSE GOSUB 100:B=5", "last": True, "grp": 2},
    {"text": "IF A=3 THEN FOR K=1 TO 2:C=C+K:NEXT K", "last": True, "grp": 2},
    {"text": "FOR I=1 TO 2", "open": [I], "grp": 3}, {"text": "FOR I=1 TO 3 STEP 2", "open": [I], "grp": 3},
    {"text": "FOR J=2 TO 1 STEP -1", "open": [J], "grp": 3}, {"text": "FOR J=A TO A+1", "open": [J], "grp": 3},
    {"text": "NEXT", "close": [0]}, {"text": "NEXT I", "close": [I]}, {"text": "NEXT J", "close": [J]},
    {"text": "NEXT J,I", "close": [J, I]}, {"text": "NEXT I,J", "close": [I, J]},
    {"text": "GOTO 90", "last": True, "grp": 4}, {"text": "GOSUB 100", "grp": 4},
    {"text": "ON A GOTO 90,30", "grp": 4}, {"text": "ON A GOSUB 100,110", "grp": 4},
    {"text": "END", "last": True, "grp": 5}, {"text": "STOP", "last": True, "grp": 5},
]
TAIL = ["90 B=B+100:END", "100 C=C+1:RETURN", "110 C=C+10:RETURN"]
OPTS = [{"filter_unused_linenum": f, "initialize_vars": i} for f in (False, True) for i in (False, True)]


ARMS = ["90", "GOTO 90", "GOSUB 100", "B=1", "B=1:C=C+2", "GOSUB 100:B=5", "B=7:GOTO 90", "FOR K=1 TO 2:C=C+K:NEXT K", "IF A=1 THEN B=2", "ON A GOTO 90,30",
        "GOSUB 100:GOSUB 110", "END", "STOP", "ON A GOSUB 100,110"]


def if_shapes():
    """every THEN arm x every ELSE arm (a line number, GOTO, GOSUB, statements, a nested IF, ON), and ELSE IF chains varied one arm at a time"""
    out = []
    for c in ("A=1", "A"):
        for t in ARMS:
            out.append("IF %s THEN %s" % (c, t))
            if c == "A=1":
                for e in ARMS:
                    out.append("IF %s THEN %s ELSE %s" % (c, t, e))
    for x in ARMS:
        out.append("IF A=0 THEN %s ELSE IF A=1 THEN B=1 ELSE B=3" % x)
        out.append("IF A=0 THEN B=9 ELSE IF A=1 THEN %s ELSE B=3" % x)
        out.append("IF A=0 THEN B=9 ELSE IF A=1 THEN B=1 ELSE %s" % x)
        out.append("IF A=0 THEN B=9 ELSE IF A=1 THEN %s" % x)
        out.append("IF A=0 THEN B=9 ELSE IF A=1 THEN B=1 ELSE IF A=2 THEN %s ELSE B=4" % x)
    return [["5 INPUT A", "10 " + s, "20 C=C+100", "30 B=B+1000"] for s in out]


def on_shapes():
    """ON .. GOTO / GOSUB with every target list up to three entries (repeats included), alone and followed by a statement"""
    import itertools
    out = []
    for n in (1, 2, 3):
        for l in itertools.product(("20", "30", "90"), repeat=n):
            out.append(["5 INPUT A", "10 ON A GOTO " + ",".join(l) + ":B=5", "20 C=C+100", "30 B=B+1000"])
        for l in itertools.product(("100", "110"), repeat=n):
            out.append(["5 INPUT A", "10 ON A GOSUB " + ",".join(l) + ":B=5", "20 C=C+100", "30 B=B+1000"])
    return out


LINE0 = [
    ["0 B=B+1", "3 IF B<3 THEN 0", "5 INPUT A"],
    ["0 B=B+1:IF B>1 THEN 90", "5 INPUT A", "10 IF A=1 THEN 0", "20 C=7"],
    ["0 IF B=1 THEN C=C+1:RETURN", "2 B=1", "5 INPUT A", "10 GOSUB 0", "20 ON A GOSUB 0,0", "30 IF A=2 THEN GOSUB 0"],
    ["0 B=B+1", "5 INPUT A", "10 IF B<2 THEN IF A=1 THEN 0 ELSE 90"],
]


def scripts():
    return [{"inp": [gen.text_bytes(a)], "dev": []} for a in ("0", "1", "2", "3")]


def mutate(case, rng):
    """canary: retarget one jump or negate one comparison in the emitted text"""
    out = [list(l) for l in case["out"]]
    labels = sorted({toks[0]["n"] for toks in out if toks and toks[0]["k"] == "int"})
    victims = []
    for ln, toks in enumerate(out):
        for i, t in enumerate(toks):
            if i > 0 and t["k"] == "int" and toks[i - 1]["k"] == "id" and toks[i - 1]["v"] in ("GOTO", "GOSUB", "THEN"):
                victims.append((ln, i, "jump"))
            if t["k"] == "op" and t["v"] in ("=", "<", ">") and toks[0]["k"] == "id" and toks[0]["v"] in ("IF", "EXITIF") or \
               (t["k"] == "op" and t["v"] in ("=", "<", ">") and len(toks) > 1 and toks[1]["k"] == "id" and toks[1]["v"] in ("IF", "EXITIF")):
                victims.append((ln, i, "rel"))
    if not victims:
        return None
    ln, i, kind = rng.choice(victims)
    if kind == "jump":
        others = [l for l in labels if l != out[ln][i]["n"]]
        if not others:
            return None
        n = rng.choice(others)
        out[ln][i] = dict(out[ln][i], n=n, v=str(n))
    else:
        out[ln][i] = dict(out[ln][i], v={"=": "<>", "<": ">=", ">": "<="}[out[ln][i]["v"]])
    c2 = dict(case)
    c2["out"] = out
    return c2


def main():
    rep = common.Report(PID)
    T = common.tier()
    rng = random.Random(common.seed())
    wd = common.workdir(PID)
    thorough = T == "thorough"
    progs = gen.gen_programs(rep, wd, "one", PALETTE, 1, 2 if thorough else 1, maxpergroup=2)
    progs += gen.gen_programs(rep, wd, "sim", PALETTE, 4 if thorough else 3, 3, maxdepth=2, maxpergroup=2,
                              simulate=6000 if thorough else 260, depth=30, seed=common.seed())
    if thorough:
        progs += gen.gen_programs(rep, wd, "two", PALETTE, 2, 1, maxpergroup=2)
    # every way to open and close up to three nested loops (bare NEXT, NEXT v, NEXT lists), exhaustively
    loops = gen.gen_programs(rep, wd, "loops", LOOPS, 1, 8 if thorough else 7, maxdepth=3, maxpergroup=9)
    loops = [p for p in loops if sum(1 for k in p[0] if "open" in LOOPS[k]) >= 2 and sum(1 for k in p[0] if LOOPS[k]["text"] == "B=B+1") <= 1]
    rep.count("loop_nests", len(loops))
    seen = set()
    plan = []
    for p in loops:
        lines = ["5 INPUT A"] + gen.render_program(LOOPS, p) + TAIL
        plan.append({"lines": lines, "opts": dict(OPTS[3] if len(plan) % 2 else OPTS[1]), "scripts": scripts()[:1], "fuel": 250})
    shapes = if_shapes() + on_shapes()
    rep.count("if_and_on_shapes", len(shapes))
    for k, body in enumerate(shapes):
        plan.append({"lines": body + TAIL, "opts": dict(OPTS[k % 4]), "scripts": scripts(), "fuel": 150})
    for body in LINE0:
        for o in OPTS:
            plan.append({"lines": body + TAIL, "opts": dict(o), "scripts": scripts(), "fuel": 150})
    for p in progs:
        lines = ["5 INPUT A"] + gen.render_program(PALETTE, p) + TAIL
        key = "\n".join(lines)
        if key in seen:
            continue
        seen.add(key)
        for o in (OPTS if thorough or len(plan) % 3 == 0 else [rng.choice(OPTS)]):
            plan.append({"lines": lines, "opts": dict(o), "scripts": scripts(), "fuel": 150})
    rep.count("programs", len(seen))
    cases, vds = refcheck.run(rep, wd, plan)
    ok = refcheck.tally(rep, cases, vds)
    picked, cv, rejected = refcheck.canaries(rep, rng, ok, wd, mutate)      # informational (not every mutation is visible)
    o = {"add_standard_prefix": False, "initialize_vars": True}
    refcheck.fixed_canaries(rep, wd, [
        (["5 INPUT A", "10 IF A=1 THEN B=1 ELSE B=2"], o, scripts(), "B := 1.0", "B := 3.0"),
        (["5 INPUT A", "10 IF A=1 THEN B=1 ELSE B=2"], o, scripts(), "ELSE", "ELSE\nC := 7.0"),
        (["5 INPUT A", "10 FOR I=1 TO 3:B=B+1:NEXT"], o, scripts(), "TO 3.0", "TO 2.0"),
        (["5 INPUT A", "10 FOR I=1 TO 3:B=B+1:NEXT"], o, scripts(), "NEXT I", "NEXT I \\ B := 0.0"),
        (["5 INPUT A", "10 GOSUB 100:B=1:END", "100 C=5:RETURN"], o, scripts(), "GOSUB 100", "GOTO 100"),
        (["5 INPUT A", "10 IF A<2 THEN 30", "20 B=1", "30 C=1"], o, scripts(), "THEN 30", "THEN 20"),
        (["5 INPUT A", "10 ON A GOTO 20,30", "15 END", "20 B=1:END", "30 B=2"], o, scripts(), "GOTO 20, 30", "GOTO 30, 20"),
        (["5 INPUT A", "10 B=1:END", "20 B=2"], o, scripts(), "END", "GOTO 20"),
        (["5 INPUT A", "10 IF A=1 THEN B=1 ELSE IF A=2 THEN B=2 ELSE B=3"], o, scripts(), "EXITIF TRUE THEN", "EXITIF A = 0.0 THEN"),
    ])
    return rep.finish({"exhaustive": False, "bounds": {"lines": 4 if thorough else 3, "stmts_per_line": 3, "inputs": 4, "options": 4}})


if __name__ == "__main__":
    common.main_wrap(main)
