"""C10 - every array and string gets exactly one declaration with the requested size.

Variables of each kind are placed in each syntactic position class; spec/Trace_C10.tla scans the declarations and uses
of the emitted text and compares with the extents and sizes it computes from the source parse, the default string size
and the per-name configuration map.  The option/config cube is enumerated by spec/GenSeq.tla.
"""
import itertools
import random

from harness import common, gen, b09lex, decblex, positions

PID = "C10"
# (use class, lines); {X} is the variable base name under test
STR_USES = [
    ("top-level", ["10 {X}$=\"A\":PRINT {X}$"]),
    ("only-in-function-argument", ["10 Z=LEN({X}$)"]),
    ("only-in-function-argument", ["10 Z$=LEFT$({X}$,1)"]),
    ("only-in-convertible-argument", ["10 Z=VAL({X}$)"]),
    ("only-READ-target", ["10 READ {X}$", "20 DATA Q"]),
    ("only-INPUT-target", ["10 INPUT {X}$"]),
    ("only-INPUT-target", ["10 LINE INPUT {X}$"]),
    ("only-print-item", ["10 PRINT {X}$"]),
    ("condition", ["10 IF {X}$=\"A\" THEN Z=1"]),
    ("device-operand", ["10 PLAY {X}$"]),
    ("dimensioned-scalar", ["10 DIM {X}$", "20 {X}$=\"A\""]),
    ("dimensioned-scalar-with-others", ["10 DIM Q,{X}$,R(2)", "20 {X}$=\"A\""]),
    ("implicit-array-element", ["10 {X}$(1)=\"A\""]),
    ("implicit-array-element", ["10 Z$={X}$(2)+\"B\""]),
    ("implicit-array-READ-target", ["10 READ {X}$(1)", "20 DATA Q"]),
    ("dimensioned-array", ["10 DIM {X}$(3)", "20 {X}$(3)=\"A\""]),
    ("dimensioned-array-2", ["10 DIM {X}$(1,2),Q$(2)", "20 {X}$(1,2)=\"A\":Q$(1)=\"B\""]),
]
NUM_USES = [
    ("dim1", ["10 DIM C(2)", "20 C(2)=1"]), ("dim2", ["10 DIM C(1,2)", "20 C(1,2)=1"]), ("dim3", ["10 DIM C(1,2,3)", "20 C(1,2,3)=1"]),
    ("dim-hex", ["10 DIM C(&H3),D(&HA,1)", "20 C(3)=1:D(10,1)=2"]), ("dim-list", ["10 DIM C(2),D(3),E$(4)", "20 C(1)=D(2)"]),
    ("dim-zero", ["10 DIM C(0)", "20 C(0)=1"]), ("implicit1", ["10 D(3)=1"]), ("implicit-read", ["10 Z=D(3)+D(4)"]),
    ("implicit2", ["10 D(1,2)=1"]), ("implicit3", ["10 Z=D(1,2,3)"]), ("implicit-in-function", ["10 Z=ABS(D(3))"]),
    ("implicit-in-convertible", ["10 Z=INT(D(3))"]), ("implicit-READ-target", ["10 READ D(1)", "20 DATA 1"]),
    ("implicit-INPUT-target", ["10 INPUT D(1)"]), ("implicit-subscript", ["10 DIM C(5)", "20 C(D(1))=2"]),
    ("temporaries", ["10 PRINT A;STR$(B)+HEX$(3)"]), ("temporaries", ["10 Z$=STR$(A)+HEX$(B)+INKEY$"]),
    ("temporaries", ["10 IF INKEY$=\"\" THEN 10"]), ("temporaries-read-filter", ["10 DATA 1,,3", "20 READ A,B,C"]),
    ("joystick", ["10 Z=JOYSTK(0)"]), ("hbuff", ["10 HBUFF 1,100"]),
    ("two-implicit", ["10 D(1)=1:E(2)=2:F$(3)=\"A\""]), ("dim-after-use-of-other", ["10 A=1", "20 DIM C(2)", "30 C(1)=A"]),
]
STR_USES += [
    ("implicit-array-INPUT-target-and-assigned", ["10 {X}$(2)=\"X\"", "20 INPUT {X}$(1)"]),
    ("implicit-array-INPUT-target-and-assigned", ["10 {X}$(2)=\"X\"", "20 LINE INPUT {X}$(1)"]),
    ("implicit-array-READ-target-and-assigned", ["10 {X}$(2)=\"X\"", "20 READ {X}$(1)", "30 DATA Q"]),
    ("several-DIM-statements", ["10 DIM {X}$(4),C(20)", "20 DIM D(3)", "30 C(1)=D(2):{X}$(1)=\"X\":E(1)=2"]),
    ("several-DIM-statements", ["10 DIM {X}$", "20 DIM Q$(3)", "30 DIM R$,{X}$(2)", "40 {X}$=Q$(1)+R$+{X}$(1)"]),
    ("scalar-beside-dimensioned-array-of-one-name", ["10 DIM {X}$(5)", "20 {X}$=\"A\":{X}$(1)={X}$"]),
    ("scalar-beside-dimensioned-array-of-one-name", ["10 DIM {X}$(5),Q$", "20 Z=LEN({X}$)+LEN({X}$(2))"]),
    ("scalar-beside-implicit-array-of-one-name", ["10 {X}$(1)=\"A\":{X}$=\"B\""]),
    ("dimensioned-scalar-beside-implicit-array", ["10 DIM {X}$", "20 {X}$(1)={X}$"]),
    ("dimensioned-scalar-and-array-of-one-name", ["10 DIM {X}$,{X}$(4)", "20 {X}$(1)={X}$"]),
]
NUM_USES += [
    ("implicit-array-INPUT-target-and-assigned", ["10 D(2)=1", "20 INPUT D(1)"]),
    ("several-DIM-statements", ["10 DIM C(20)", "20 DIM D(3),E(1,2)", "30 C(1)=D(2)+E(1,1):F(1)=2"]),
    ("scalar-beside-array-of-one-name", ["10 DIM C(4)", "20 C=1:C(1)=C"]), ("scalar-beside-implicit-array-of-one-name", ["10 D=1:D(1)=D"]),
]
# every expression position once with a string scalar, a string array element and an implicit numeric array element in it
for _nm, _l in positions.STR_POSITIONS:
    STR_USES.append(("position:" + _nm, positions.fill(_l, "{s}", "{X}$")))
    if "INPUT" not in _l[0]:
        STR_USES.append(("position:" + _nm + ":implicit-array", positions.fill(_l, "{s}", "{X}$(2)")))
for _nm, _l in positions.NUM_POSITIONS:
    STR_USES.append(("position:" + _nm + ":in-LEN", positions.fill(_l, "{n}", "LEN({X}$)")))
    NUM_USES.append(("position:" + _nm + ":implicit-array", positions.fill(_l, "{n}", "E(3)")))
CFG_NAMES = [("X$", False, 100), ("X$", True, 200), ("Y$", False, 300), ("X9$", True, 150), ("X9$", False, 120), ("XY$", True, 90)]


def main():
    rep = common.Report(PID)
    T = common.tier()
    rng = random.Random(common.seed())
    wd = common.workdir(PID)
    thorough = T == "thorough"
    # option cube: default size x config subset x initialise  (as sequences over 3 binary digits + size + init)
    cube = gen.gen_seqs(rep, wd, "cube", 2, [0, 1], [0, 1], [(a, b) for a in (0, 1) for b in (0, 1)], 8, maxcount=8)
    cube = [c for c in cube if len(c) == 8]
    plan = []
    for use, tpl in STR_USES:
        for X in (["X", "Y", "X9", "XY"] if thorough else (["X", "X9"] if not use.startswith("position:") or len(plan) % 3 == 0 else ["X"])):
            lines = [l.replace("{X}", X) for l in tpl] + ["90 END"]
            for c in (cube if thorough else gen.sample(rng, [c for c in cube if c[0]], 3) + gen.sample(rng, cube, 1) if use.startswith("position:") else gen.sample(rng, cube, 8)):
                size = (80 if len(plan) % 3 else 16) if c[0] else 32       # a requested size above and below BASIC09's 32
                cfg = [n for n, bit in zip(CFG_NAMES, c[1:7]) if bit]
                plan.append({"lines": lines, "use": use, "size": size, "cfg": cfg, "init": bool(c[7]), "prefix": False})
    for use, tpl in NUM_USES:
        for c in (cube[::2] if thorough else gen.sample(rng, cube, 2 if use.startswith("position:") else 4)):
            plan.append({"lines": tpl + ["90 END"], "use": use, "size": 80 if c[0] else 32, "cfg": [], "init": bool(c[7]), "prefix": bool(c[1])})
    payload = []
    for p in plan:
        cfgmap = {(n + ("()" if arr else "")): sz for n, arr, sz in p["cfg"]}
        payload.append({"src": "\n".join(p["lines"]), "cfg": cfgmap,
                        "opts": {"add_standard_prefix": p["prefix"], "default_str_storage": p["size"], "initialize_vars": p["init"]}})
    res = common.run_real("w_convert", payload)
    cases, meta = [], []
    for p, r in zip(plan, res):
        if "out" not in r:
            rep.count("refused")
            rep.count("refused_" + r.get("exc", "?"))
            continue
        text = "\n".join(p["lines"])
        cases.append({"id": len(cases) + 1, "src": decblex.lex_program(text), "out": b09lex.lex_nonblank(r["out"]), "strsize": p["size"],
                      "use": p["use"], "cfg": [{"name": n, "arr": arr, "size": sz} for n, arr, sz in p["cfg"]]})
        meta.append((text, p, r["out"]))
    vds = common.judge("Trace_C10", cases, rep, wd)
    ok = []
    for (text, p, out), v, c in zip(meta, vds, cases):
        rep.cov["traces_validated_against_impl"] += 1
        rep.count("use:" + p["use"])
        desc = "%s {size=%d,cfg=%s,init=%s} -> %s [%s]" % (text.replace("\n", " | "), p["size"], p["cfg"], p["init"],
                                                          out.strip().replace("\n", " | ")[:400], v["detail"])
        if v["clause"] == "machinery":
            raise common.MachineryError("source outside the specification's grammar: " + text)
        if v["clause"] == "unjudged":
            rep.count("unjudged:" + v["key"])
        elif v["ok"]:
            rep.count("accepted")
            ok.append((text, p, out, c))
            rep.sample({"src": text, "size": p["size"], "cfg": p["cfg"], "out": out, "verdict": "ok"}, cap=4)
        else:
            rep.count("rejected")
            rep.count("clause:" + v["clause"])
            rep.bad(v["key"], desc, {"src": text, "opts": p, "out": out, "verdict": v})
    # gating canaries: edit the declaration in accepted outputs
    picked = []
    for text, p, out, c in ok:
        for old, new in (("(3)", "(2)"), ("(4)", "(5)"), ("STRING[80]", "STRING[81]"), ("STRING[100]", "STRING[80]"), ("(11)", "(10)")):
            if old in out and ("DIM" in out.upper()):
                out2 = out.replace(old, new, 1)
                if out2 != out and any(l.strip().upper().startswith("DIM") or " DIM " in l.upper() for l in out.split("\n") if old in l):
                    picked.append(dict(c, out=b09lex.lex_nonblank(out2)))
                    break
        if len(picked) >= 40:
            break
    # duplicate a declaration line
    for text, p, out, c in ok[:200]:
        dl = [l for l in out.split("\n") if l.strip().upper().startswith("DIM ")]
        if dl:
            picked.append(dict(c, out=b09lex.lex_nonblank(dl[0] + "\n" + out)))
            if len(picked) >= 50:
                break
    if len(picked) < 10:
        raise common.MachineryError("too few canaries")
    cv = common.judge("Trace_C10", picked, rep, wd)
    rej = sum(1 for v in cv if not v["ok"])
    rep.count("canaries", len(picked))
    rep.count("canaries_rejected", rej)
    if rej < len(picked):
        raise common.MachineryError("canaries: %d of %d corrupted declarations were accepted" % (len(picked) - rej, len(picked)))
    return rep.finish({"exhaustive": thorough, "option_cube": len(cube)})


if __name__ == "__main__":
    common.main_wrap(main)
