"""Per-format wiring for the image checks: constants of the encoder machine, the real tool and its arguments,
and the fields the validation needs.  No pixel knowledge here: pictures are computed in spec/Trace_Img.tla."""
import base64

from harness import common, imggen, imgio

PALS = "{" + ", ".join(str(i) for i in range(64)) + "}"
EXTREME_VALS = "{0, 15, 240, 255, 17, 136, 8, 128, 119, 18, 33, 254, 1, 85, 170, 204}"   # every nibble value in both positions, bit pairs
LOWNIB_VALS = "{0, 7, 112, 119, 17, 18, 33, 69, 86, 103, 36, 1, 80}"                     # low nibble < 8 (RAT, see known finding)
LENS = "{1, 2, 3, 79, 80, 81, 112, 127, 128, 129, 140, 159, 160, 161, 254, 255, 256, 700}"       # incl. the two escape byte values used below (a run as long as the escape byte)
MAXMODES = ["bw", "br", "rb", "br2", "rb2", "br3", "rb3", "s10", "s11"]


def base(fmt, header, total, linelen, vals=EXTREME_VALS, esc=140, allowrep="FALSE", skip=0, veftype=0, lens=LENS, pals=PALS, noise="{1, 2, 3, 4}"):
    return {"Format": '"%s"' % fmt, "Total": str(total), "LineLen": str(linelen), "Esc": str(esc), "Vals": vals, "Lens": lens, "NoiseSet": noise,
            "Header": '"%s"' % header, "Skip": str(skip), "VefType": str(veftype), "PalSet": pals, "AllowRep": allowrep}


def variants_uncompressed():
    """(name, ImgGen constants, tool, args, case fields)"""
    v = []
    v.append(("hrs", base("RAW", "HRS", 160 * 192, 160), "hrstoppm", [], {"fmt": "HRS", "w": 320, "h": 192}))
    v.append(("hrs-w64", base("RAW", "HRS", 32 * 20, 32, skip=7), "hrstoppm", ["-w", "64", "-r", "20", "-s", "7"], {"fmt": "HRS", "w": 64, "h": 20}))
    v.append(("hrs-w7", base("RAW", "HRS", 4 * 6, 4), "hrstoppm", ["-w", "7", "-r", "6"], {"fmt": "HRS", "w": 7, "h": 6}))
    v.append(("hrs-w1", base("RAW", "HRS", 1 * 5, 1), "hrstoppm", ["-w", "1", "-r", "5"], {"fmt": "HRS", "w": 1, "h": 5}))
    v.append(("mge-raw", base("RAW", "MGE-RAW", 32000, 160), "mgetoppm", [], {"fmt": "MGE", "w": 320, "h": 200}))
    for flag in (1, 127, 128):
        v.append(("mge-raw-flag%d" % flag, base("RAW", "MGE-RAW", 32000, 160, skip=flag), "mgetoppm", [], {"fmt": "MGE", "w": 320, "h": 200}))
    for t, total, ll in ((0, 32000, 160), (1, 32000, 160), (3, 16000, 80)):
        v.append(("vef-raw-%d" % t, base("RAW", "VEF", total, ll, veftype=t), "veftopng", [], {"fmt": "VEF", "veftype": t, "w": 640 if t == 1 else 320, "h": 200}))
    for m in MAXMODES:
        v.append(("max-" + m, base("RAW", "MAX", 32 * 48, 32), "maxtoppm", ([] if m == "bw" else ["-" + m]), {"fmt": "MAX", "mode": m, "w": 256, "h": 48}))
    v.append(("max-w64", base("RAW", "MAX", 8 * 30, 8, skip=3), "maxtoppm", ["-w", "64", "-s", "3", "-br2"], {"fmt": "MAX", "mode": "br2", "w": 64, "h": 30}))
    v.append(("art-newsroom", base("RAW", "NEWS", 5 * 30, 5), "maxtoppm", ["-newsroom"], {"fmt": "MAX", "mode": "bw", "w": 40, "h": 30}))
    v.append(("pix-64", base("RAW", "NONE", 64 * 64 // 2, 32), "pixtopgm", [], {"fmt": "PIX", "w": 64, "h": 64}))
    v.append(("pix-128", base("RAW", "NONE", 128 * 128 // 2, 64), "pixtopgm", [], {"fmt": "PIX", "w": 128, "h": 128}))
    return v


def variants_palette_sweep():
    """four palettes per palette-bearing layout that together hold every one of the 64 colour codes (MGE: in both palette kinds);
    the pixels are noise stretches (every byte value) so that every slot is drawn"""
    v = []
    noisy = dict(vals="{0, 255, 27}", lens="{700, 1500}", noise="{1, 2}")
    for k in range(4):
        v.append(("mge-raw-rgb-pal%d" % k, base("RAW", "MGE-RAW", 32000, 160, pals="{%d}" % (64 + k), **noisy), "mgetoppm", [], {"fmt": "MGE", "w": 320, "h": 200}))
        v.append(("mge-raw-cmp-pal%d" % k, base("RAW", "MGE-RAW", 32000, 160, pals="{%d}" % (128 + k), **noisy), "mgetoppm", [], {"fmt": "MGE", "w": 320, "h": 200}))
        v.append(("vef-raw-0-pal%d" % k, base("RAW", "VEF", 32000, 160, veftype=0, pals="{%d}" % k, **noisy), "veftopng", [], {"fmt": "VEF", "veftype": 0, "w": 320, "h": 200}))
        v.append(("hrs-pal%d" % k, base("RAW", "HRS", 32 * 20, 32, skip=7, pals="{%d}" % k, **noisy), "hrstoppm", ["-w", "64", "-r", "20", "-s", "7"], {"fmt": "HRS", "w": 64, "h": 20}))
        v.append(("cm3-raw-pal%d" % k, linebase("CM3", 160, 192, ["raw"], pages="{1}", motifs="{FALSE}", pals="{%d}" % k, kinds='{"noise"}'), "cm3toppm", [], {"fmt": "CM3", "w": 320, "h": 192}))
    return v


def variants_compressed():
    v = []
    # escape byte 0x70 and low nibbles below 8: files the known low-nibble finding does not touch, so that everything else is compared
    v.append(("rat-low", base("RAT", "RAT", 160 * 199, 160, vals=LOWNIB_VALS, esc=112, allowrep="TRUE", noise="{5, 6}"), "rattoppm", [], {"fmt": "RAT", "w": 320, "h": 199}))
    v.append(("rat-lit", base("RAT", "RAT", 160 * 199, 160, vals=LOWNIB_VALS, esc=112, allowrep="FALSE", noise="{5, 6}"), "rattoppm", [], {"fmt": "RAT", "w": 320, "h": 199}))
    v.append(("rat-all", base("RAT", "RAT", 160 * 199, 160, vals=EXTREME_VALS.replace("}", ", 140}"), allowrep="TRUE"), "rattoppm", [], {"fmt": "RAT", "w": 320, "h": 199}))
    v.append(("mge-rle", base("MGE", "MGE-RLE", 32000, 160), "mgetoppm", [], {"fmt": "MGE", "w": 320, "h": 200}))
    return v


ALLKINDS = '{"const", "halves", "noise", "same", "poke", "stripes"}'


def linebase(fmt, w, nlines, strategies, veftype=0, pages="{1}", motifs="{FALSE}", vals="{0, 15, 240, 255, 17, 136, 8, 119}", pals=PALS, kinds=ALLKINDS):
    return {"Kinds": kinds, "Format": '"%s"' % fmt, "W": str(w), "NLines": str(nlines), "VefType": str(veftype), "PalSet": pals, "Vals": vals,
            "Strategies": "{" + ", ".join('"%s"' % x for x in strategies) + "}", "Pages": pages, "Motifs": motifs, "_module": "LineGen"}


def variants_cm3_raw():
    return [("cm3-raw-1page", linebase("CM3", 160, 192, ["raw"], pages="{1}", motifs="{TRUE, FALSE}"), "cm3toppm", [], {"fmt": "CM3", "w": 320, "h": 192}),
            ("cm3-raw-2pages", linebase("CM3", 160, 192, ["raw"], pages="{2}", motifs="{TRUE, FALSE}"), "cm3toppm", [], {"fmt": "CM3", "w": 320, "h": 384})]


def variants_line_compressed():
    allcm3 = ["raw", "prefer-left", "prefer-up", "literal", "alternate"]
    v = [("cm3-coded-1page", linebase("CM3", 160, 192, allcm3, pages="{1}", motifs="{TRUE, FALSE}"), "cm3toppm", [], {"fmt": "CM3", "w": 320, "h": 192}),
         ("cm3-coded-2pages", linebase("CM3", 160, 192, allcm3, pages="{2}", motifs="{TRUE, FALSE}"), "cm3toppm", [], {"fmt": "CM3", "w": 320, "h": 384})]
    allvef = ["literal", "runs", "split-runs", "mixed", "overshoot"]
    for t, w in ((0, 80), (1, 80), (3, 40)):
        v.append(("vef-squashed-%d" % t, linebase("VEF", w, 400, allvef, veftype=t), "veftopng", [], {"fmt": "VEF", "veftype": t, "w": 640 if t == 1 else 320, "h": 200}))
    return v


def generate(rep, wd, variant, num, seed, module="ImgGen"):
    name, consts, tool, args, fields = variant
    consts = dict(consts)
    module = consts.pop("_module", module)
    if module == "LineGen":
        depth = int(consts["NLines"]) * 2 + 20
    else:
        depth = 60 + int(consts["Total"]) // 20
    gens = imggen.simulate(rep, wd, name, module, consts, max(1, num // 4 + 1), depth, seed)
    out = []
    for g in gens[:num]:
        _, pal, cmp_, img, hdr, body = g
        data = bytes(hdr) + imggen.expand(body)
        out.append({"variant": name, "tool": tool, "args": args, "data": data, "fields": dict(fields, pal=pal, cmp=cmp_, img=img)})
    return out


def decode(files, inmode="file", outmode="file", timeout=30):
    payload = [{"tool": f["tool"], "args": f["args"], "data": base64.b64encode(f["data"]).decode(), "inmode": inmode, "outmode": outmode,
                "timeout": timeout, "name": f.get("name", "in.bin"), "outname": "out.png" if f["tool"] == "veftopng" else "out.bin"} for f in files]
    res = common.run_real("w_decode", payload, shards=min(common.NCPU, max(1, len(payload))))
    # a run that hit the alarm is repeated alone with a longer alarm: a hang persists, a slow moment on a loaded machine does not
    late = [k for k, r in enumerate(res) if r["status"] == "timeout"]
    if late:
        again = common.run_real("w_decode", [dict(payload[k], timeout=max(90, 4 * timeout)) for k in late], shards=1)
        for k, r in zip(late, again):
            res[k] = r
    return res


def got_of(res):
    if res["status"] != "ok" or res["out"] is None:
        return {"status": res["status"] if res["status"] != "ok" else "no-output", "w": 0, "h": 0, "maxval": 0, "nsamples": 0, "runs": [], "kind": "none"}
    im = imgio.read_image(base64.b64decode(res["out"]))
    st = "ok" if im["kind"] != "bad" and not im["problem"] else "unreadable:" + (im["problem"] or "container")
    return {"status": st, "w": im["w"], "h": im["h"], "maxval": im["maxval"], "nsamples": im["nsamples"], "runs": im["runs"], "kind": im["kind"]}


def case_of(i, f, res):
    c = {"id": i, "fmt": f["fields"]["fmt"], "w": f["fields"].get("w", 0), "h": f["fields"].get("h", 0), "veftype": f["fields"].get("veftype", 0),
         "mode": f["fields"].get("mode", ""), "pal": f["fields"]["pal"], "cmp": f["fields"]["cmp"], "img": f["fields"]["img"], "got": got_of(res)}
    return c


def variants_compact():
    """small valid files for fault enumeration (C19): long runs, constant lines, toy dimensions where the tool has size options"""
    big = "{255}"
    v = [("rat-compact", base("RAT", "RAT", 160 * 199, 160, vals="{17, 35}", esc=112, allowrep="TRUE", lens=big, noise="{5}", pals="{5}"), "rattoppm", [], {"fmt": "RAT", "w": 320, "h": 199}),
         ("mge-compact", base("MGE", "MGE-RLE", 32000, 160, vals="{17, 35}", lens=big, pals="{5}"), "mgetoppm", [], {"fmt": "MGE", "w": 320, "h": 200}),
         ("cm3-compact", linebase("CM3", 160, 192, ["prefer-left", "prefer-up"], pages="{1}", motifs="{FALSE}", vals="{17}", pals="{5}", kinds='{"const", "same", "poke"}'), "cm3toppm", [], {"fmt": "CM3", "w": 320, "h": 192}),
         ("vef-compact", linebase("VEF", 80, 400, ["runs"], veftype=0, vals="{17}", pals="{5}", kinds='{"const", "halves"}'), "veftopng", [], {"fmt": "VEF", "veftype": 0, "w": 320, "h": 200}),
         ("hrs-toy", base("RAW", "HRS", 4 * 4, 4, vals="{17, 35}", lens="{1, 2, 3}", pals="{5}"), "hrstoppm", ["-w", "8", "-r", "4"], {"fmt": "HRS", "w": 8, "h": 4}),
         # odd width: a row takes (w + 1) / 2 bytes, so a file short by less than a byte per two rows still holds w * h / 2 bytes
         ("hrs-toy-odd", base("RAW", "HRS", 4 * 6, 4, vals="{17, 35}", lens="{1, 2, 3}", pals="{5}"), "hrstoppm", ["-w", "7", "-r", "6"], {"fmt": "HRS", "w": 7, "h": 6}),
         ("max-toy", base("RAW", "MAX", 2 * 6, 2, vals="{17, 35}", lens="{1, 2, 3}", pals="{5}"), "maxtoppm", ["-w", "16"], {"fmt": "MAX", "mode": "bw", "w": 16, "h": 6}),
         ("max-toy-i", base("RAW", "MAX", 2 * 6, 2, vals="{17, 35}", lens="{1, 2, 3}", pals="{5}"), "maxtoppm", ["-w", "16", "-i", "-br"], {"fmt": "MAX", "mode": "br", "w": 16, "h": 6}),
         ("art-toy", base("RAW", "NEWS", 2 * 6, 2, vals="{17, 35}", lens="{1, 2, 3}", pals="{5}"), "maxtoppm", ["-newsroom"], {"fmt": "MAX", "mode": "bw", "w": 16, "h": 6}),
         ("pix-toy", base("RAW", "NONE", 32, 4, vals="{17, 35}", lens="{1, 2, 3}", pals="{5}"), "pixtopgm", [], {"fmt": "PIX", "w": 8, "h": 8})]
    return v


def variants_big_raw():
    return [x for x in variants_uncompressed() if x[0] in ("mge-raw", "vef-raw-0", "vef-raw-3", "hrs")] + variants_cm3_raw()[:1]
