"""Shared plumbing for the /verif checks (no judgement lives here).

 - run TLC on a module of /verif/spec with cases handed over as JSON
 - read the verdict variables back from TLC's -dump file
 - call the real code of /repo in fresh interpreters (parallel shards)
 - match verdict keys against /verif/known_findings.json
 - write /verif/evidence/<id>.json
"""
import json
import os
import re
import shutil
import subprocess
import sys
import time

VERIF = os.path.dirname(os.path.dirname(os.path.abspath(__file__)))
SPEC = os.path.join(VERIF, "spec")
REPO = os.environ.get("VERIF_REPO", "/repo")
PY = "/venv/bin/python"
JAR = "/opt/veriftools/tla/tla2tools.jar:/opt/veriftools/tla/CommunityModules-deps.jar"
NCPU = os.cpu_count() or 4


class MachineryError(Exception):
    """Something in the checking machinery itself failed (exit 2, never a VIOLATION)."""


def tier():
    t = os.environ.get("VERIF_TIER", "quick")
    for i, a in enumerate(sys.argv):
        if a == "--tier" and i + 1 < len(sys.argv):
            t = sys.argv[i + 1]
    return t if t in ("quick", "thorough") else "quick"


def seed():
    try:
        return int(os.environ.get("VERIF_SEED", "0"))
    except ValueError:
        return 0


OUTDIR = os.environ.get("VERIF_OUT", VERIF)        # evidence/ and replays/ (redirected when a seeded change is evaluated)


def workdir(pid):
    d = os.path.join(VERIF, ".work", pid + os.environ.get("VERIF_WORKTAG", ""))
    shutil.rmtree(d, ignore_errors=True)
    os.makedirs(d, exist_ok=True)
    return d


STATS_RE = re.compile(r"(\d+) states generated, (\d+) distinct states found")


class TlcResult:
    def __init__(self):
        self.generated = 0
        self.distinct = 0
        self.out = ""
        self.states = []
        self.rc = 0
        self.wall = 0.0


def run_tlc(module, cfg=None, env=None, wd=None, workers=None, dump=True,
            timeout=3600, extra=None, simulate=None, want_states=True, heap="6g",
            ok_rcs=(0,)):
    """Run TLC on spec/<module>.tla. Returns TlcResult; .states is a list of
    dicts {var: raw-text} (one per distinct state) when dump is requested."""
    wd = wd or workdir("tlc")
    tag = "%s_%d" % (module, int(time.time() * 1000) % 100000000)
    meta = os.path.join(wd, "meta_" + tag)
    dumpf = os.path.join(wd, "dump_" + tag)
    jtmp = os.path.join(wd, "jtmp_" + tag)          # TLC leaves a tlc-* directory per run in java.io.tmpdir: keep it out of /tmp
    os.makedirs(jtmp, exist_ok=True)
    cmd = ["java", "-Xss512m", "-Xmx" + heap, "-XX:+UseParallelGC", "-Djava.io.tmpdir=" + jtmp, "-cp", JAR, "tlc2.TLC",
           "-workers", str(workers or NCPU), "-metadir", meta, "-noGenerateSpecTE"]
    if simulate:
        cmd += ["-simulate", simulate]
    if dump and not simulate:
        cmd += ["-dump", dumpf]
    if extra:
        cmd += list(extra)
    cmd += ["-config", cfg or (module + ".cfg"), module + ".tla"]
    e = dict(os.environ)
    e.pop("JAVA_TOOL_OPTIONS", None)
    if env:
        e.update({k: str(v) for k, v in env.items()})
    t0 = time.time()
    try:
        p = subprocess.run(cmd, cwd=SPEC, env=e, capture_output=True, text=True, timeout=timeout)
    except subprocess.TimeoutExpired:
        raise MachineryError("TLC timeout on %s" % module)
    finally:
        import shutil
        shutil.rmtree(jtmp, ignore_errors=True)
    r = TlcResult()
    r.wall = time.time() - t0
    r.out = p.stdout + p.stderr
    r.rc = p.returncode
    m = None
    for m in STATS_RE.finditer(r.out):
        pass
    if m:
        r.generated, r.distinct = int(m.group(1)), int(m.group(2))
    if p.returncode not in ok_rcs:
        raise MachineryError("TLC failed on %s (rc=%d):\n%s" % (module, p.returncode, r.out[-4000:]))
    if dump and not simulate and want_states:
        path = dumpf + ".dump"
        if not os.path.exists(path):
            path = dumpf
        if not os.path.exists(path):
            raise MachineryError("TLC wrote no dump for %s:\n%s" % (module, r.out[-3000:]))
        r.states = parse_dump(path)
        os.remove(path)
    shutil.rmtree(meta, ignore_errors=True)
    return r


def parse_dump(path):
    """A -dump file is a list of blocks
         State 12:
         /\\ a = ...
         /\\ b = ...
       Values may span several lines. Returns [{var: text}]."""
    states = []
    cur = None
    var = None
    with open(path) as f:
        for line in f:
            line = line.rstrip("\n")
            if line.startswith("State "):
                if cur is not None:
                    states.append(cur)
                cur = {}
                var = None
                continue
            if cur is None:
                continue
            m = re.match(r"^(?:/\\ )?([A-Za-z_][A-Za-z_0-9]*) = (.*)$", line)
            if m and (line.startswith("/\\ ") or var is None):
                var = m.group(1)
                cur[var] = m.group(2)
            elif var is not None and line.strip():
                cur[var] += " " + line.strip()
    if cur is not None:
        states.append(cur)
    return states


# ---------- a small reader for TLC-printed values (records, tuples, strings, ints, bools, sets) ----------
class _P:
    def __init__(self, s):
        self.s = s
        self.i = 0

    def ws(self):
        while self.i < len(self.s) and self.s[self.i] in " \n\t":
            self.i += 1

    def val(self):
        self.ws()
        s = self.s
        c = s[self.i]
        if c == '"':
            j = self.i + 1
            out = []
            while s[j] != '"':
                if s[j] == "\\":
                    j += 1
                    out.append({"n": "\n", "t": "\t"}.get(s[j], s[j]))
                else:
                    out.append(s[j])
                j += 1
            self.i = j + 1
            return "".join(out)
        if s.startswith("<<", self.i):
            self.i += 2
            out = []
            self.ws()
            if s.startswith(">>", self.i):
                self.i += 2
                return out
            while True:
                out.append(self.val())
                self.ws()
                if s.startswith(">>", self.i):
                    self.i += 2
                    return out
                assert s[self.i] == ",", s[self.i:self.i + 30]
                self.i += 1
        if c == "{":
            self.i += 1
            out = []
            self.ws()
            if s[self.i] == "}":
                self.i += 1
                return out
            while True:
                out.append(self.val())
                self.ws()
                if s[self.i] == "}":
                    self.i += 1
                    return out
                assert s[self.i] == ",", s[self.i:self.i + 30]
                self.i += 1
        if c == "[":
            self.i += 1
            out = {}
            while True:
                self.ws()
                m = re.compile(r"([A-Za-z_][A-Za-z_0-9]*) \|-> ").match(s, self.i)
                assert m, s[self.i:self.i + 40]
                self.i = m.end()
                out[m.group(1)] = self.val()
                self.ws()
                if s[self.i] == "]":
                    self.i += 1
                    return out
                assert s[self.i] == ",", s[self.i:self.i + 30]
                self.i += 1
        if c == "(":
            # function printed as (a :> b @@ c :> d)
            self.i += 1
            out = {}
            while True:
                k = self.val()
                self.ws()
                assert s.startswith(":>", self.i), s[self.i:self.i + 30]
                self.i += 2
                out[k if not isinstance(k, list) else tuple(k)] = self.val()
                self.ws()
                if s[self.i] == ")":
                    self.i += 1
                    return out
                assert s.startswith("@@", self.i), s[self.i:self.i + 30]
                self.i += 2
        m = re.compile(r"-?\d+").match(s, self.i)
        if m:
            self.i = m.end()
            return int(m.group(0))
        m = re.compile(r"[A-Za-z_][A-Za-z_0-9]*").match(s, self.i)
        if m:
            self.i = m.end()
            w = m.group(0)
            return True if w == "TRUE" else False if w == "FALSE" else w
        raise ValueError("cannot read TLC value at: " + s[self.i:self.i + 60])


def tlaval(text):
    try:
        return _P(text).val()
    except (AssertionError, IndexError, ValueError) as ex:
        raise MachineryError("unreadable TLC value: %s (%s)" % (text[:200], ex))


def verdicts(states, idvar="ci", vdvar="vd", todo="todo"):
    """Collect {case index: verdict record} from dumped states (skipping the pre-verdict states)."""
    out = {}
    for st in states:
        if vdvar not in st or idvar not in st:
            continue
        vd = tlaval(st[vdvar])
        if isinstance(vd, dict) and vd.get("clause") == todo:
            continue
        out.setdefault(tlaval(st[idvar]), []).append(vd)
    return out


# ---------- real code ----------
def run_real(worker, payload, shards=None, timeout=3600, hashseed="0", pyargs=()):
    """Run harness/<worker>.py in fresh interpreters over a list payload, split in shards.
    The worker reads a JSON list from argv[1] and writes a JSON list (same length) to argv[2]."""
    shards = shards or min(NCPU, max(1, len(payload) // 50))
    import uuid
    wd = os.path.join(VERIF, ".work", "real_%d_%s" % (os.getpid(), uuid.uuid4().hex[:10]))
    os.makedirs(wd, exist_ok=True)
    procs = []
    n = len(payload)
    per = (n + shards - 1) // shards if n else 1
    for k in range(shards):
        part = payload[k * per:(k + 1) * per]
        if not part:
            continue
        fi = os.path.join(wd, "in%d.json" % k)
        fo = os.path.join(wd, "out%d.json" % k)
        with open(fi, "w") as f:
            json.dump(part, f)
        e = dict(os.environ)
        e["PYTHONHASHSEED"] = str(hashseed)
        e["PYTHONPATH"] = REPO + os.pathsep + VERIF
        e["PYTHONDONTWRITEBYTECODE"] = "1"
        p = subprocess.Popen([PY, *pyargs, os.path.join(VERIF, "harness", worker + ".py"), fi, fo],
                             env=e, stdout=subprocess.PIPE, stderr=subprocess.PIPE, text=True, cwd=wd)
        procs.append((p, fo, len(part)))
    out = []
    for p, fo, ln in procs:
        try:
            so, se = p.communicate(timeout=timeout)
        except subprocess.TimeoutExpired:
            p.kill()
            raise MachineryError("real-code worker %s timed out" % worker)
        if p.returncode != 0 or not os.path.exists(fo):
            raise MachineryError("real-code worker %s failed rc=%s\n%s" % (worker, p.returncode, se[-3000:]))
        with open(fo) as f:
            res = json.load(f)
        if len(res) != ln:
            raise MachineryError("worker %s returned %d results for %d inputs" % (worker, len(res), ln))
        out.extend(res)
    shutil.rmtree(wd, ignore_errors=True)
    return out


# ---------- known findings ----------
def load_findings(pid):
    path = os.path.join(VERIF, "known_findings.json")
    if not os.path.exists(path):
        return {}, {}
    with open(path) as f:
        data = json.load(f)
    op, fx = {}, {}
    for e in data.get("findings", []):
        if e.get("property") != pid:
            continue
        (op if e.get("status") == "open" else fx)[e["key"]] = e
    return op, fx


class Report:
    """Collects verdicts of one check run and turns them into exit status + evidence."""

    def __init__(self, pid, level="model_checking"):
        self.pid = pid
        self.level = level
        self.t0 = time.time()
        self.open, self.fixed = load_findings(pid)
        self.viol = []          # (key, what, replay-dict)
        self.known_seen = {}    # key -> count
        self.cov = {"states": 0, "transitions": 0, "traces_validated_against_impl": 0, "samples": []}
        self.counts = {}
        self.assumptions = []

    def tlc(self, r):
        self.cov["states"] += r.distinct
        self.cov["transitions"] += r.generated
        return r

    def count(self, name, n=1):
        self.counts[name] = self.counts.get(name, 0) + n

    def sample(self, s, cap=6):
        if len(self.cov["samples"]) < cap:
            self.cov["samples"].append(s)

    def bad(self, key, what, replay):
        """A rejected trace. Listed open finding -> KNOWN-FINDING, else VIOLATION."""
        if key in self.open:
            self.known_seen[key] = self.known_seen.get(key, 0) + 1
            if self.known_seen[key] == 1:
                self.open[key]["_witness"] = what
        else:
            self.viol.append((key, what, replay))

    def finish(self, extra_cov=None, max_print=10):
        pid = self.pid
        wall = time.time() - self.t0
        os.makedirs(os.path.join(OUTDIR, "evidence"), exist_ok=True)
        os.makedirs(os.path.join(OUTDIR, "replays"), exist_ok=True)
        for old in os.listdir(os.path.join(OUTDIR, "replays")):         # the violation files of earlier runs of this check
            if old.startswith(pid + "_"):
                os.remove(os.path.join(OUTDIR, "replays", old))
        for key in sorted(self.known_seen):
            print("KNOWN-FINDING: property=%s %s %s (seen %d times; e.g. %s)" % (
                pid, key, self.open[key].get("what", ""), self.known_seen[key],
                str(self.open[key].get("_witness", ""))[:160]))
        seen = set()
        nprint = 0
        try:
            firsts = {}
            for key, what, replay in self.viol:
                firsts.setdefault(key, what)
            with open(os.path.join(VERIF, ".work", pid + os.environ.get("VERIF_WORKTAG", "") + "_violations.json"), "w") as f:
                json.dump(firsts, f, indent=1, default=str)
        except OSError:
            pass
        for key, what, replay in self.viol:
            if key in seen:
                continue
            seen.add(key)
            nprint += 1
            if nprint > max_print:
                continue
            path = os.path.join(OUTDIR, "replays", "%s_%s.json" % (pid, re.sub(r"[^A-Za-z0-9_.=-]+", "_", key)[:120]))
            with open(path, "w") as f:
                json.dump({"property": pid, "key": key, "what": what, "case": replay}, f, indent=1, default=str)
            print("VIOLATION property=%s replay=%s" % (pid, path))
            print("  key=%s  %s" % (key, str(what)[:300]))
        cov = dict(self.cov)
        cov.update(self.counts)
        cov["known_findings_seen"] = sorted(self.known_seen)
        cov["violation_keys"] = sorted(seen)
        if extra_cov:
            cov.update(extra_cov)
        if not cov["samples"]:
            cov["samples"] = ["(none)"]
        cov["states"] = max(cov["states"], 1)
        cov["transitions"] = max(cov["transitions"], 1)
        ev = {"property_id": pid, "tier": tier(), "seed": seed(), "level": self.level,
              "coverage": cov, "assumptions": self.assumptions, "wall_s": round(wall, 2),
              "violations": len(seen)}
        with open(os.path.join(OUTDIR, "evidence", pid + ".json"), "w") as f:
            json.dump(ev, f, indent=1, default=str)
        print("%s: %s in %.1fs; traces=%d states=%d known=%d violations=%d" % (
            pid, tier(), wall, cov["traces_validated_against_impl"], cov["states"], len(self.known_seen), len(seen)))
        return 1 if seen else 0


def main_wrap(fn):
    try:
        rc = fn()
    except MachineryError as ex:
        print("MACHINERY-FAILURE: %s" % ex, file=sys.stderr)
        sys.exit(2)
    sys.exit(rc)


# ---------- batch judging ----------
def lib_tokens_file(wd):
    """Lex the runtime library of the working tree for module Lib (IOEnv.LIBTOKS)."""
    from harness import b09lex
    path = os.path.join(wd, "libtoks.json")
    if not os.path.exists(path):
        with open(os.path.join(REPO, "coco", "resources", "ecb.b09")) as f:
            text = f.read()
        with open(path, "w") as f:
            json.dump(b09lex.lex_text(text), f)
    return path


def judge(module, cases, rep, wd, shard=3000, env=None, timeout=3600, cfg=None, maxbytes=6_000_000):
    """Hand cases to spec/<module>.tla in shards (bounded by count and by JSON size: every TLC worker
    parses the file itself); returns one verdict record per case."""
    out = [None] * len(cases)
    off = 0
    while off < len(cases):
        part = []
        size = 0
        while off + len(part) < len(cases) and len(part) < shard:
            s = json.dumps(cases[off + len(part)])
            if part and size + len(s) > maxbytes:
                break
            part.append(s)
            size += len(s)
        path = os.path.join(wd, "cases_%s_%d.json" % (module, off))
        with open(path, "w") as f:
            f.write("[" + ",".join(part) + "]")
        e = {"CASES": path, "LIBTOKS": lib_tokens_file(wd)}
        if env:
            e.update(env)
        r = rep.tlc(run_tlc(module, cfg=cfg, env=e, wd=wd, timeout=timeout))
        for ci, vs in verdicts(r.states).items():
            out[off + ci - 1] = vs[0]
        os.remove(path)
        off += len(part)
    missing = [i for i, v in enumerate(out) if v is None]
    if missing:
        raise MachineryError("%s: no verdict for %d cases (first index %d)" % (module, len(missing), missing[0]))
    return out
