"""C01 - translated expressions evaluate to the same values as in Color BASIC.

(G) spec/GenExpr.tla enumerates the expression fragment; (V) spec/Trace_C01.tla runs the source and the text
the real translator emitted on the common machine for every input script and compares operator trees.
"""
import itertools
import random
import sys

from harness import common, gen

PID = "C01"
NUMS = ["-1", "0", "2", "3"]
STRS = ["", "A", "AB"]


def scripts_for(kind, logic):
    out = []
    if kind == "num":
        for a, b in itertools.product(NUMS, NUMS):
            out.append({"inp": [gen.text_bytes(a), gen.text_bytes(b)], "dev": [1, 0, 2, 1, 0, 3]})
        if not logic:
            out.append({"inp": [gen.text_bytes("2.5"), gen.text_bytes("2")], "dev": [1, 0, 2, 1, 0, 3]})
            out.append({"inp": [gen.text_bytes("3"), gen.text_bytes("-2.5")], "dev": [1, 0, 2, 1, 0, 3]})
    else:
        for a, b, s, t in itertools.product(["0", "2", "-1"], ["2", "3"], STRS, ["A", "B"]):
            out.append({"inp": [gen.text_bytes(a), gen.text_bytes(b), gen.text_bytes(s), gen.text_bytes(t)], "dev": [1, 0, 2, 1, 0, 3]})
    return out


CONTEXTS = {
    # name: (input line, template lines, slot, label, source line index)
    "assign": (lambda e: ["10 Z=%s" % e], "e"),
    "if": (lambda e: ["10 IF %s THEN Z=1" % e, "20 Y=1"], "e"),
    "ifelse": (lambda e: ["10 IF %s THEN Z=1 ELSE Z=2" % e], "e"),
    "ifgoto": (lambda e: ["10 IF %s THEN 30" % e, "20 Z=1", "30 Y=1"], "e"),
    "print": (lambda e: ["10 PRINT %s" % e], "a1p"),
    "for": (lambda e: ["10 FOR I=%s TO 4:Z=Z+1:NEXT I" % e], "e"),
    "sub": (lambda e: ["7 DIM C(9)", "8 C(2)=7:C(3)=9", "10 Z=C(%s)" % e], "e"),
    "on": (lambda e: ["10 ON %s GOTO 20,30" % e, "15 Z=5:END", "20 Z=1:END", "30 Z=2"], "e"),
    "sassign": (lambda e: ["10 Z$=%s" % e], "e"),
}


def build(cid, ctx, etoks, kind, opts):
    e = gen.render(etoks)
    mk, slot = CONTEXTS[ctx]
    body = mk(e)
    first = "5 INPUT A,B" if kind == "num" else "5 INPUT A,B,A$,B$"
    lines = [first] + body
    srcln = 1 + [i for i, l in enumerate(body) if l.startswith("10 ")][0] + 1
    return {"cid": cid, "ctx": ctx, "expr": e, "lines": lines, "slot": slot, "srcln": srcln, "kind": kind,
            "logic": any(t in ("AND", "OR", "NOT") for t in etoks), "opts": opts}


def main():
    rep = common.Report(PID)
    T = common.tier()
    rng = random.Random(common.seed())
    wd = common.workdir(PID)
    thorough = T == "thorough"

    # ---- (G) expressions enumerated by TLC ----
    num = gen.gen_exprs(rep, wd, "num", Grammar='"num"', MaxOps="3" if thorough else "2", MaxLen="12")
    num3 = [] if thorough else gen.gen_exprs(rep, wd, "num3", Grammar='"num"', MaxOps="3", MaxLen="10")
    cond = gen.gen_exprs(rep, wd, "cond", Grammar='"cond"', MaxOps="4" if thorough else "3", MaxLen="11",
                         NumLeaves='{"A", "B", "2"}', StrLeaves='{"A$", "S:A"}', RelOps='{"=", "<", ">="}',
                         Arith='{"+", "*"}' if not thorough else '{"+", "-", "*"}', NumFun1='{"ABS"}')
    funs = gen.gen_exprs(rep, wd, "funs", Grammar='"num"', MaxOps="3", MaxLen="12", NumLeaves='{"A", "2"}',
                         Arith='{"+"}', Logic="{}", WithNot="FALSE", WithNeg="FALSE", WithParen="FALSE",
                         NumFun1='{"ABS", "INT", "SGN", "FIX", "SQR", "BUTTON", "JOYSTK"}',
                         StrLeaves='{"A$", "S:AB"}', StrToNum='{"LEN", "ASC", "VAL"}', NumToStr='{"CHR$", "STR$", "HEX$"}',
                         Str2='{"LEFT$", "RIGHT$"}', Str3='{"MID$"}', WithInstr="TRUE", WithStringS="TRUE", WithInkey="TRUE")
    strs = gen.gen_exprs(rep, wd, "str", Grammar='"str"', MaxOps="3" if thorough else "2", MaxLen="12", NumLeaves='{"B", "2"}',
                         StrLeaves='{"A$", "B$", "S:AB"}', Arith='{"+"}', Logic="{}", WithNot="FALSE", WithNeg="FALSE",
                         WithParen="FALSE", NumFun1='{"INT"}', StrToNum='{"LEN"}', NumToStr='{"CHR$", "STR$", "HEX$"}',
                         Str2='{"LEFT$", "RIGHT$"}', Str3='{"MID$"}', WithInstr="TRUE", WithStringS="TRUE", WithInkey="TRUE")
    rep.count("generated_num", len(num) + len(num3))
    rep.count("generated_cond", len(cond))
    rep.count("generated_str", len(strs) + len(funs))

    plan = []
    cid = 0

    def add(ctx, toks, kind, opts=None):
        nonlocal cid
        cid += 1
        plan.append(build(cid, ctx, toks, kind, opts or {"add_standard_prefix": False}))

    n_extra = 3000 if not thorough else 0
    # thorough: the enumeration with three operators is larger than a run can judge (tens of GB of cases); a sample of it
    for t in (gen.sample(rng, num, 40000) if thorough else num):
        add("assign", t, "num")
    for t in gen.sample(rng, [x for x in num3 if sum(1 for y in x if y not in ("A", "B", "2", ")")) >= 3], n_extra):
        add("assign", t, "num")
    others = gen.sample(rng, num, 20000 if thorough else 700)
    for i, t in enumerate(others):
        add(["print", "for", "sub", "on", "if", "ifelse", "ifgoto"][i % 7], t, "num")
    for t in gen.sample(rng, cond, 30000 if thorough else 2500):
        add("if", t, "str")
    for i, t in enumerate(gen.sample(rng, cond, 6000 if thorough else 900)):
        add(["ifelse", "ifgoto"][i % 2], t, "str")
    for t in gen.sample(rng, funs, 15000 if thorough else 1200):
        add("assign", t, "str")
    for t in gen.sample(rng, strs, 15000 if thorough else 1200):
        add("sassign", t, "str")
    # nested groups (beyond the operator bound of the enumeration): a group that holds two groups, a group and a call, a
    # group and an array element, a doubled group -- every operator at each of the three places
    ops = ["+", "-", "*", "/"]
    shapes = ["2 {a} ( ( A {b} B ) {c} ( B {b} 3 ) )", "2 {a} ( ( A {b} B ) {c} ABS ( B ) )", "2 {a} ( ABS ( A ) {c} ( B {b} 3 ) )", "2 {a} ( ( A {b} B ) {c} 3 )",
              "2 {a} ( A {c} ( B {b} 3 ) )", "( ( A {b} B ) ) {a} 2", "( ( A {b} B ) {c} ( B {b} 3 ) ) {a} 2", "2 {a} ( ( A {b} B ) )",
              "2 {a} ( ( ( A {b} B ) {c} 3 ) {b} ( A ) )", "- ( ( A {b} B ) {c} ( B {b} 3 ) )", "2 {a} ( - ( A {b} B ) {c} ( B ) )"]
    for sh in shapes:
        for a in ops:
            for b in (ops if thorough else ["+", "-"]):
                for c in ops:
                    add("assign", sh.format(a=a, b=b, c=c).split(), "num")
    for sh in shapes[:5]:
        for a in ops[:2]:
            for c in ops:
                add("if", (sh.format(a=a, b="+", c=c) + " = 1").split(), "num")
                add("ifgoto", (sh.format(a=a, b="-", c=c) + " > 1").split(), "num")
    # every spelling of every comparison, numeric and string, as a condition (comparisons as values are outside the fragment)
    for op in ["=", "<", ">", "<=", ">=", "<>", "=<", "=>", "><"]:
        for ctx in ("if", "ifelse", "ifgoto"):
            add(ctx, ["A", op, "B"], "num")
            add(ctx, ["A$", op, "B$"], "str")
    # a slice with the standard prologue and pre-initialisation switched on
    for t in gen.sample(rng, num, 2000 if thorough else 150):
        add("assign", t, "num", {"initialize_vars": True})

    # literal spellings: every text of the numeric template over {0,1,9} up to 5 characters (spec/GenSeq.tla), hex
    # literals, unary signs and blanks where the documentation allows them
    import re
    syms = ["0", "1", "9", ".", "E", "+", "-"]
    seqs = gen.gen_seqs(rep, wd, "lit", 7, [0, 1, 2, 3], list(range(7)), [(a, b) for a in range(7) for b in range(7)], 5 if thorough else 4)
    lits = sorted({"".join(syms[x] for x in s) for s in seqs})
    lits = [l for l in lits if re.fullmatch(r"(\d+\.?\d*|\.\d*)(E[+-]?\d*)?", l)]
    rep.count("literal_spellings", len(lits))
    hexes = ["&H" + a + b for a in ("", "0", "7", "F") for b in ("0", "7", "8", "F")] + ["&H1FF", "&H7FFF", "&H8000", "&H8001", "&HFFFF", "&H10000", "&H1FFFF", "& H FF", "&H 10", "& H8", "& H 8000"]
    for l in (lits if thorough else gen.sample(rng, lits, 260)) + hexes:
        cid += 1
        plan.append(dict(build(cid, "assign", [l], "num", {"add_standard_prefix": False}), logic=True))
        if "E" in l:
            cid += 1
            plan.append(dict(build(cid, "assign", [l.replace("E", " E ")], "num", {"add_standard_prefix": False}), logic=True))
        cid += 1
        plan.append(dict(build(cid, "assign", ["-", l, "+", "A"], "num", {"add_standard_prefix": False}), logic=True))

    # ---- real translator ----
    res = common.run_real("w_convert", [{"src": "\n".join(p["lines"]), "opts": p["opts"]} for p in plan])
    cases = []
    refused = 0
    for p, r in zip(plan, res):
        if "out" not in r:
            refused += 1
            rep.count("refused_" + r.get("exc", "?"))
            continue
        cases.append(gen.program_case(p["cid"], p["lines"], p["opts"], scripts_for(p["kind"], p["logic"]), 60, r,
                                      {"slot": p["slot"], "srcln": p["srcln"], "label": 10, "ctx": p["ctx"], "expr": p["expr"]}))
    rep.count("refused", refused)

    # ---- canaries: corrupt the emitted text of accepted cases, the specification must reject ----
    # (appended after the first judgement, below)
    vds = common.judge("Trace_C01", cases, rep, wd)
    okcases = []
    for c, v in zip(cases, vds):
        rep.cov["traces_validated_against_impl"] += 1
        if v["clause"] == "machinery":
            raise common.MachineryError("source program not in the specification's grammar: %s (%s)" % (c["srctext"], v))
        if v["clause"] == "unjudged":
            rep.count("unjudged")
            rep.count("unjudged:" + v["key"])
        elif v["ok"]:
            rep.count("accepted")
            okcases.append(c)
            rep.sample({"src": c["srctext"], "out": c["outtext"], "verdict": "ok", "scripts": len(c["scripts"])})
        else:
            rep.count("rejected")
            rep.count("clause:" + v["clause"])
            rep.bad(v["key"], "%s -> %s [%s]" % (c["srctext"].replace("\n", " | "), c["outtext"].strip().replace("\n", " | "), v["detail"]),
                    {"src": c["srctext"], "opts": {}, "out": c["outtext"], "verdict": v})
    canaries(rep, rng, okcases, wd)
    return rep.finish({"exhaustive": False, "bounds": {"ops": 3 if thorough else 2, "scripts_per_case": "16-54"}})


SWAPS = {"+": "-", "-": "+", "*": "/", "/": "*", "LAND": "LOR", "LOR": "LAND", "AND": "OR", "OR": "AND", "<": ">=", "=": "<>", ">=": "<"}


def canaries(rep, rng, okcases, wd):
    """Deliberately wrong outputs for accepted cases (one operator flipped in the emitted text): the
    specification has to reject every one of them that changes a value; none accepted = machinery failure."""
    picked = []
    for c in gen.sample(rng, okcases, 400):
        idx = [i for ln in range(len(c["out"])) for i, t in enumerate(c["out"][ln]) if t["v"] in SWAPS and t["k"] in ("op", "id")]
        if not idx:
            continue
        c2 = dict(c)
        out2 = [list(l) for l in c["out"]]
        done = False
        for ln in range(len(out2)):
            for i, t in enumerate(out2[ln]):
                if not done and t["v"] in SWAPS and t["k"] in ("op", "id") and not (t["v"] == "=" and i <= 2):
                    t2 = dict(t)
                    t2["v"] = SWAPS[t["v"]]
                    out2[ln][i] = t2
                    done = True
        if done:
            c2["out"] = out2
            picked.append(c2)
        if len(picked) >= 60:
            break
    if not picked:
        raise common.MachineryError("no canary could be built")
    vds = common.judge("Trace_C01", picked, rep, wd)
    rejected = sum(1 for v in vds if not v["ok"])
    rep.count("canaries", len(picked))
    rep.count("canaries_rejected", rejected)
    # flipping + to - is invisible when an operand is always 0 etc.; demand a clear majority
    # gating canaries: wrong translations that every input script set exposes
    from harness import refcheck
    o = {"add_standard_prefix": False}
    x = {"slot": "e", "srcln": 2, "label": 10, "ctx": "canary", "expr": ""}
    sn, ss = scripts_for("num", False), scripts_for("str", False)
    refcheck.fixed_canaries(rep, wd, [
        (["5 INPUT A,B", "10 Z=A+B"], o, sn, "A + B", "A - B"),
        (["5 INPUT A,B", "10 Z=A*B+2"], o, sn, "A * B + 2.0", "A * (B + 2.0)"),
        (["5 INPUT A,B", "10 Z=A-B-2"], o, sn, "A - B - 2.0", "A - (B - 2.0)"),
        (["5 INPUT A,B", "10 Z=A AND B"], o, sn, "LAND", "LOR"),
        (["5 INPUT A,B", "10 Z=NOT A"], o, sn, "LNOT(A)", "A"),
        (["5 INPUT A,B", "10 Z=2^A"], o, sn, "2.0 ^ A", "A ^ 2.0"),
        (["5 INPUT A,B", "10 Z=INT(A/2)"], o, sn, "A / 2.0", "A"),
        (["5 INPUT A,B,A$,B$", "10 IF A=2 AND B=2 THEN Z=1", "20 Y=1"], o, ss, "AND", "OR"),
        (["5 INPUT A,B,A$,B$", "10 IF A$<B$ THEN Z=1", "20 Y=1"], o, ss, "<", ">="),
        (["5 INPUT A,B,A$,B$", "10 Z$=A$+B$"], o, ss, "A$ + B$", "B$ + A$"),
        (["5 INPUT A,B,A$,B$", "10 Z=LEN(B$)+1"], o, ss, "LEN(B$)", "LEN(A$)"),
        (["5 INPUT A,B", "10 Z=&H10"], o, sn, "$10", "$11"),
        (["5 INPUT A,B", "10 Z=1.5E1"], o, sn, "15.0", "1.5"),
    ], module="Trace_C01", extra=x)


if __name__ == "__main__":
    common.main_wrap(main)
