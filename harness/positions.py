"""Every syntactic position of the source grammar that carries an expression: {n} numeric slot, {s} string slot.

One entry per position (not per statement): a FOR statement has three, an IF with ELSE IF has a condition per arm and
a statement slot per arm.  Shared by the checks whose quantifier says "in every syntactic position".
"""
NUM_POSITIONS = [
    ("assign-rhs", ["10 Z={n}"]), ("assign-array-rhs", ["10 C(1)={n}"]), ("subscript-target", ["10 C({n})=1"]), ("subscript-read", ["10 Z=C({n})"]),
    ("subscript-2", ["10 Z=D(1,{n})"]), ("if-condition", ["10 IF {n}=1 THEN Z=1"]), ("if-condition-bare", ["10 IF {n} THEN Z=1"]),
    ("if-then-arm", ["10 IF A=1 THEN Z={n}"]), ("if-else-arm", ["10 IF A=1 THEN Z=1 ELSE Z={n}"]),
    ("elseif-condition", ["10 IF A=1 THEN Z=1 ELSE IF {n}=2 THEN Z=2"]), ("elseif-arm", ["10 IF A=1 THEN Z=1 ELSE IF A=2 THEN Z={n}"]),
    ("elseif-else-arm", ["10 IF A=1 THEN Z=1 ELSE IF A=2 THEN Z=2 ELSE Z={n}"]), ("nested-if-arm", ["10 IF A=1 THEN IF B=2 THEN Z={n}"]),
    ("for-start", ["10 FOR I={n} TO 2:NEXT"]), ("for-limit", ["10 FOR I=1 TO {n}:NEXT"]), ("for-step", ["10 FOR I=1 TO 2 STEP {n}:NEXT"]),
    ("for-body", ["10 FOR I=1 TO 2:Z={n}:NEXT I"]), ("print-item", ["10 PRINT {n}"]), ("print-second-item", ["10 PRINT A;{n}"]),
    ("print-comma-item", ["10 PRINT A,{n}"]), ("print-at-position", ["10 PRINT @{n},A"]), ("print-at-item", ["10 PRINT @1,{n}"]),
    ("print-tab", ["10 PRINT TAB({n});A"]), ("on-goto-selector", ["10 ON {n} GOTO 90"]), ("on-gosub-selector", ["10 ON {n} GOSUB 90"]),
    ("read-subscript", ["10 READ C({n})", "20 DATA 1"]), ("input-subscript", ["10 INPUT C({n})"]), ("builtin-argument", ["10 Z=ABS({n})"]),
    ("builtin-second-argument", ["10 Z$=LEFT$(A$,{n})"]), ("convertible-argument", ["10 Z=INT({n})"]), ("chr-argument", ["10 Z$=CHR$({n})"]),
    ("str-argument", ["10 Z$=STR$({n})"]), ("comparison-rhs", ["10 IF A<{n} THEN Z=1"]), ("unary-operand", ["10 Z=-{n}"]), ("not-operand", ["10 Z=NOT {n}"]),
    ("parenthesised", ["10 Z=({n})*2"]), ("binary-left", ["10 Z={n}+1"]), ("binary-right", ["10 Z=1+{n}"]), ("logical-operand", ["10 Z=A AND {n}"]),
    ("statement-after-colon", ["10 A=1:Z={n}"]), ("second-line", ["10 A=1", "20 Z={n}"]), ("after-then-line", ["10 IF A=1 THEN 90 ELSE Z={n}"]),
    ("sound-1", ["10 SOUND {n},1"]), ("sound-2", ["10 SOUND 1,{n}"]), ("poke-1", ["10 POKE {n},1"]), ("poke-2", ["10 POKE 1024,{n}"]),
    ("cls", ["10 CLS {n}"]), ("width", ["10 WIDTH {n}"]), ("locate-1", ["10 LOCATE {n},1"]), ("locate-2", ["10 LOCATE 1,{n}"]),
    ("attr-1", ["10 ATTR {n},1"]), ("attr-2", ["10 ATTR 1,{n}"]), ("palette-1", ["10 PALETTE {n},1"]), ("palette-2", ["10 PALETTE 1,{n}"]),
    ("hscreen", ["10 HSCREEN {n}"]), ("hcls", ["10 HCLS {n}"]), ("hcolor-1", ["10 HCOLOR {n},1"]), ("hcolor-2", ["10 HCOLOR 1,{n}"]),
    ("hset-x", ["10 HSET({n},1)"]), ("hset-y", ["10 HSET(1,{n})"]), ("hset-c", ["10 HSET(1,2,{n})"]), ("hreset", ["10 HRESET({n},1)"]),
    ("hline-x1", ["10 HLINE({n},1)-(2,2),PSET"]), ("hline-y2", ["10 HLINE(1,1)-(2,{n}),PSET"]), ("hline-rel", ["10 HLINE-({n},2),PRESET"]),
    ("hcircle-x", ["10 HCIRCLE({n},1),2"]), ("hcircle-r", ["10 HCIRCLE(1,1),{n}"]), ("hcircle-c", ["10 HCIRCLE(1,1),2,{n}"]),
    ("hcircle-ratio", ["10 HCIRCLE(1,1),2,1,{n}"]), ("hcircle-end", ["10 HCIRCLE(1,1),2,1,1,0,{n}"]), ("hpaint-x", ["10 HPAINT({n},1)"]),
    ("hpaint-c", ["10 HPAINT(1,1),{n}"]), ("hprint-x", ["10 HPRINT({n},1),A$"]), ("hbuff-size", ["10 HBUFF 1,{n}"]), ("hget-x", ["10 HGET({n},1)-(2,2),1"]),
    ("hget-buffer", ["10 HGET(1,1)-(2,2),{n}"]), ("hput-x", ["10 HPUT({n},1)-(2,2),1,PSET"]), ("set-x", ["10 SET({n},1,2)"]), ("set-c", ["10 SET(1,1,{n})"]),
    ("reset-y", ["10 RESET(1,{n})"]), ("button-argument", ["10 Z=BUTTON({n})"]), ("joystk-argument", ["10 Z=JOYSTK({n})"]),
    ("point-argument", ["10 Z=POINT(1,{n})"]), ("instr-start", ["10 Z=INSTR({n},A$,\"A\")"]), ("string-count", ["10 Z$=STRING$({n},\"*\")"]),
    ("mid-start", ["10 Z$=MID$(A$,{n},1)"]), ("mid-length", ["10 Z$=MID$(A$,1,{n})"]), ("hex-argument", ["10 Z$=HEX$({n})"]),
]
STR_POSITIONS = [
    ("assign-rhs", ["10 Z$={s}"]), ("assign-array-rhs", ["10 C$(1)={s}"]), ("concat-left", ["10 Z$={s}+\"B\""]), ("concat-right", ["10 Z$=\"B\"+{s}"]),
    ("if-condition", ["10 IF {s}=\"A\" THEN Z=1"]), ("if-condition-rhs", ["10 IF A$<{s} THEN Z=1"]), ("if-then-arm", ["10 IF A=1 THEN Z$={s}"]),
    ("if-else-arm", ["10 IF A=1 THEN Z=1 ELSE Z$={s}"]), ("elseif-condition", ["10 IF A=1 THEN Z=1 ELSE IF {s}=\"B\" THEN Z=2"]),
    ("elseif-else-arm", ["10 IF A=1 THEN Z=1 ELSE IF A=2 THEN Z=2 ELSE Z$={s}"]), ("print-item", ["10 PRINT {s}"]), ("print-second-item", ["10 PRINT A;{s}"]),
    ("print-at-item", ["10 PRINT @1,{s}"]), ("for-limit-len", ["10 FOR I=1 TO LEN({s}):NEXT"]), ("for-start-len", ["10 FOR I=LEN({s}) TO 2:NEXT"]),
    ("for-step-len", ["10 FOR I=1 TO 2 STEP LEN({s}):NEXT"]), ("on-selector-len", ["10 ON LEN({s}) GOTO 90"]), ("subscript-len", ["10 C(LEN({s}))=1"]),
    ("len", ["10 Z=LEN({s})"]), ("asc", ["10 Z=ASC({s})"]), ("val", ["10 Z=VAL({s})"]), ("left", ["10 Z$=LEFT$({s},1)"]), ("right", ["10 Z$=RIGHT$({s},1)"]),
    ("mid", ["10 Z$=MID$({s},1,1)"]), ("instr-subject", ["10 Z=INSTR(1,{s},\"A\")"]), ("instr-pattern", ["10 Z=INSTR(1,\"ABC\",{s})"]),
    ("string-char", ["10 Z$=STRING$(2,{s})"]), ("play", ["10 PLAY {s}"]), ("hprint-text", ["10 HPRINT(1,1),{s}"]), ("hdraw", ["10 HDRAW {s}"]),
    ("input-prompt-target", ["10 INPUT \"P\";{s}"]), ("sound-len", ["10 SOUND LEN({s}),1"]), ("poke-len", ["10 POKE 1024,LEN({s})"]),
    ("statement-after-colon", ["10 A=1:Z$={s}"]), ("for-body", ["10 FOR I=1 TO 2:Z$={s}:NEXT I"]),
]


def fill(lines, slot, text):
    return [l.replace(slot, text) for l in lines]
