"""C12 - conversion is a deterministic function of its input and options.

spec/Trace_C12.tla: the tools are specified as stateless functions; the History machine enumerates the histories of
calls (TLC, exhaustive up to MaxLen); the harness replays every history in a forked fresh interpreter under each
PYTHONHASHSEED; spec/Validate_C12.tla accepts a recorded trace iff every step returns the canonical result.
"""
import os
import random
import subprocess
import json

from harness import common, gen, imgfmt

PID = "C12"
PROGRAMS = [
    (["10 A(1)=1:B(2)=2:C$(3)=\"X\":D(1)=4:E(2)=5:F$(1)=\"Y\"", "20 Z=A(1)+B(2)+D(1)+E(2)"], {"initialize_vars": True}),
    (["10 A(1)=1:B(2)=2:C$(3)=\"X\":D(1)=4:E(2)=5:F$(1)=\"Y\":G(1)=1:H(1)=2", "20 Z=A(1)+B(2)"], {"default_str_storage": 80}),
    (["10 Z$=STR$(A)+HEX$(B):Y$=INKEY$:X$=\"A\":W$=Z$+Y$", "20 PRINT Z$;Y$;X$;W$"], {"default_str_storage": 100, "initialize_vars": True}),
    (["10 CLS:SOUND 1,2:PLAY \"C\":HSCREEN 2:HCIRCLE(1,2),3:Z=INT(A):Y=JOYSTK(0)", "20 HBUFF 1,10:PALETTE 1,2"],
     {"output_dependencies": True, "procname": "prog"}),
    (["10 ON ERR GOTO 40:ON BRK GOTO 50", "20 INPUT A,B$:DATA 1,,3", "30 READ X,Y,Z", "40 END", "50 END"], {"filter_unused_linenum": True}),
    (["10 DIM M(3),N$(2),O(1,2)", "20 M(1)=P(2)+Q(3)+R(1):S$(1)=N$(1)+T$(2)"], {"initialize_vars": True, "default_str_storage": 64}),
    (["10 FOR I=1 TO 3:FOR J=1 TO 2:U(I)=V(J):NEXT:NEXT", "20 IF A=1 THEN 10 ELSE IF B=2 THEN 20 ELSE K(1)=L(2)"], {}),
    (["10 PRINT \"HELLO\""], {"output_dependencies": True, "procname": "hello", "default_str_storage": 48}),
    # numeric and string arrays / scalars of one base name (orderings that tie unless the whole name is compared)
    (["10 A(1)=1:A$(1)=\"X\":B$(2)=\"Y\":B(2)=2:C(1)=3:C$(1)=\"Z\":D$(1)=\"W\":D(1)=4", "20 A=1:A$=\"Q\":B$=\"R\":B=2"],
     {"initialize_vars": True, "default_str_storage": 80}),
    # conversions that share procedure name and string size but need different runtime procedures
    (["10 PRINT \"HELLO\""], {"output_dependencies": True, "procname": "prog"}),
    (["10 Z$=STRING$(3,\"A\"):LOCATE 1,2:Z=POINT(1,2)"], {"output_dependencies": True, "procname": "prog"}),
    (["10 PLAY \"C\""], {"output_dependencies": True, "procname": "hello", "default_str_storage": 48}),
    # a name DIMensioned in one program and used without DIM in another; several string temporaries with a non-default size
    (["10 DIM A$,B$(2),N(3)", "20 A$=\"X\":B$(1)=A$"], {"default_str_storage": 80}),
    (["10 A$=\"Y\":B$(1)=A$:N(1)=2"], {"default_str_storage": 80, "initialize_vars": True}),
    (["10 A$=HEX$(X)+STR$(Y)+HEX$(Z)+STR$(W):PRINT A$;X;Y"], {"default_str_storage": 80}),
    (["10 DATA &H10,,3,&HFF,1", "20 READ A,B,C,D,E"], {}),
    (["10 DATA 16,,7,255,1.0", "20 READ A,B,C,D,E"], {}),
    (["10 HBUFF 1,100:HGET(1,2)-(3,4),1"], {"output_dependencies": True, "procname": "prog"}),
    (["10 HBUFF 2,50"], {}),
]
DECODES = [("hrstoppm", [], "monalisa.hrs"), ("maxtoppm", ["-br"], "eye4.max"), ("mgetoppm", [], "dragon1.mge"), ("rattoppm", [], "watrfall.rat"),
           ("cm3toppm", [], "clip1.cm3"), ("veftopng", [], "trekies.vef"), ("pixtopgm", [], "sue.pix"), ("maxtoppm", ["-newsroom"], "shamrock.art")]


def main():
    rep = common.Report(PID)
    T = common.tier()
    rng = random.Random(common.seed())
    wd = common.workdir(PID)
    thorough = T == "thorough"
    fixtures = os.path.join(common.REPO, "tests", "coco_tests", "fixtures")
    calls = [{"kind": "convert", "src": "\n".join(l), "opts": o} for l, o in PROGRAMS]
    # the same program through convert_file with an options file of one path and three contents (sizes per name)
    cfsrc = "10 DIM A$,B$(2)\n20 A$=\"X\":B$(1)=A$:C$=A$"
    for sizes in ({"A$": 10}, {"A$": 200}, {"A$": 200, "B$()": 40, "C$": 7}):
        calls.append({"kind": "convert_file", "src": cfsrc, "opts": {"procname": "p"},
                      "config": "string_configs:\n  strname_to_size:\n" + "".join("    %s: %d\n" % kv for kv in sizes.items())})
    calls += [{"kind": "decode", "tool": t, "args": a, "file": os.path.join(fixtures, f)} for t, a, f in DECODES if os.path.exists(os.path.join(fixtures, f))]
    # two generated files per compressed format (different pictures, encodings that refer to the line above / earlier bytes):
    # a decoder that keeps a buffer between calls shows it only on such pairs
    gdir = os.path.join(wd, "gen")
    os.makedirs(gdir, exist_ok=True)
    pool = imgfmt.variants_line_compressed()[:1] + imgfmt.variants_line_compressed()[2:3] + imgfmt.variants_compressed()[:1] + imgfmt.variants_compressed()[3:]
    for v in pool:
        for k, f in enumerate(imgfmt.generate(rep, wd, v, 2, common.seed())):
            path = os.path.join(gdir, "%s_%d.bin" % (v[0], k))
            with open(path, "wb") as fh:
                fh.write(f["data"])
            calls.append({"kind": "decode", "tool": f["tool"], "args": f["args"], "file": path})
    # pairs of uncompressed files of one layout that differ only in the palette, and (MGE) only in the palette kind with equal
    # palette bytes: a decoder that keeps a colour table between calls shows it only on such pairs
    for v in [x for x in imgfmt.variants_palette_sweep() if x[0].endswith(("pal0", "pal1"))]:
        for f in imgfmt.generate(rep, wd, v, 1, common.seed()):
            path = os.path.join(gdir, "%s.bin" % v[0])
            with open(path, "wb") as fh:
                fh.write(f["data"])
            calls.append({"kind": "decode", "tool": f["tool"], "args": f["args"], "file": path})
    kinds = [c["kind"] if c["kind"] != "decode" else c["tool"] for c in calls]
    n = len(calls)
    # (G) histories from the TLA+ History machine
    cfg = os.path.join(wd, "hist.cfg")
    maxlen = 3 if thorough else 2
    with open(cfg, "w") as f:
        f.write("CONSTANTS\n  NCalls = %d\n  MaxLen = %d\nINIT HInit\nNEXT HNext\nINVARIANT HTypeOK\nCHECK_DEADLOCK FALSE\n" % (n, maxlen))
    r = rep.tlc(common.run_tlc("Trace_C12", cfg=cfg, wd=wd))
    hists = [[k - 1 for k in common.tlaval(st["hist"])] for st in r.states]
    hists = [h for h in hists if h]
    if thorough:
        # all histories of length 1 and 2, a sample of those of length 3 (the pool has grown; the full cube took 94 minutes)
        hists = [h for h in hists if len(h) <= 2] + gen.sample(rng, [h for h in hists if len(h) == 3], 4000)
    else:
        hists = [h for h in hists if len(h) == 1] + gen.sample(rng, [h for h in hists if len(h) == 2], 120) + \
                [[a, b, a] for a in range(0, n, 3) for b in range(1, n, 5)]
    # all ordered pairs of conversions, and of decodes by the same tool
    conv = [k for k, c in enumerate(calls) if c["kind"] in ("convert", "convert_file")]
    have = {tuple(h) for h in hists}
    hists += [[a, b] for a in conv for b in conv if a != b and (a, b) not in have]
    have = {tuple(h) for h in hists}
    hists += [[a, b] for a in range(n) for b in range(n) if a != b and kinds[a] == kinds[b] and kinds[a] != "convert" and (a, b) not in have]
    rep.count("histories", len(hists))
    seeds = list(range(24)) if thorough else [0, 1, 2, 3, 4, 5, 6, 7, 99, 12345]
    # canonical results: each call alone, seed 0
    canon = common.run_real("w_history", [{"calls": calls, "histories": [[k] for k in range(n)]}], shards=1, hashseed="0")[0]["results"]
    canon = [c[0] for c in canon]
    if any(c.startswith(("exc:", "crash:")) for c in canon):
        raise common.MachineryError("reference call failed: %r" % list(zip(kinds, canon)))
    traces = []
    procs = []
    from concurrent.futures import ThreadPoolExecutor
    half = (len(hists) + 1) // 2
    jobs = [(sd, part) for sd in seeds for part in (hists[:half], hists[half:]) if part]

    def one(job):
        sd, part = job
        return common.run_real("w_history", [{"calls": calls, "histories": part}], shards=1, hashseed=str(sd))[0]["results"]
    with ThreadPoolExecutor(max_workers=common.NCPU) as ex:
        for (sd, part), res in zip(jobs, ex.map(one, jobs)):
            for h, rs in zip(part, res):
                traces.append({"seed": sd, "calls": [k + 1 for k in h], "results": rs})
    data = {"canon": canon, "kinds": kinds, "traces": traces}
    path = os.path.join(wd, "traces.json")
    with open(path, "w") as f:
        json.dump(data, f)
    rv = rep.tlc(common.run_tlc("Validate_C12", env={"CASES": path}, wd=wd))
    nbad = 0
    for ci, vs in common.verdicts(rv.states).items():
        v = vs[0]
        rep.cov["traces_validated_against_impl"] += 1
        if not v["ok"]:
            nbad += 1
            tr = traces[ci - 1]
            rep.bad(v["key"], "seed %d history %s: %s" % (tr["seed"], tr["calls"], v["detail"]), {"trace": tr, "verdict": v})
    rep.count("seeds", len(seeds))
    rep.count("calls_in_pool", n)
    rep.sample({"history": traces[len(traces) // 2]["calls"], "seed": traces[len(traces) // 2]["seed"], "results": traces[len(traces) // 2]["results"]})
    # gating canary: a trace with one wrong result must be rejected
    bad = dict(traces[0], results=["0" * 40] + traces[0]["results"][1:])
    p2 = os.path.join(wd, "canary.json")
    with open(p2, "w") as f:
        json.dump({"canon": canon, "kinds": kinds, "traces": [bad, traces[0]]}, f)
    rc = common.run_tlc("Validate_C12", env={"CASES": p2}, wd=wd)
    vs = common.verdicts(rc.states)
    if vs[1][0]["ok"] or not vs[2][0]["ok"]:
        raise common.MachineryError("canary: the validator did not separate a corrupted trace from a good one")
    rep.count("canaries", 1)
    return rep.finish({"exhaustive": thorough, "history_length": maxlen})


if __name__ == "__main__":
    common.main_wrap(main)
