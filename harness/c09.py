"""C09 - distinct source variables stay distinct; the same variable stays the same.

(M) spec/Names.tla: TLC explores a whole small-alphabet name space (pairs of names up to 4 characters, both kinds)
    and checks that the naming convention is faithful to Color BASIC's identity and never yields a generated name.
(G) spec/GenSeq.tla enumerates the names; pairs are placed in one program in every syntactic position.
(V) spec/Trace_C09.tla: identifiers of the real output == images of the source variables under the convention.
"""
import random

from harness import common, gen, b09lex, decblex, positions

PID = "C09"
ALNUM = [chr(65 + i) for i in range(26)] + [str(d) for d in range(10)]
# positions: template, kinds allowed ("n" numeric scalar, "s" string scalar, "na"/"sa" arrays)
POS = [
    ("{v}=1", "n"), ("Z={v}+1", "n"), ("FOR {v}=1 TO 2:NEXT {v}", "n"), ("FOR {v}=1 TO 2:NEXT", "n"), ("READ {v}", "n"), ("INPUT {v}", "n"),
    ("DIM {v}", "n"), ("Z=VARPTR({v})", "n"), ("C({v})=1", "n"), ("PRINT {v}", "n"), ("IF {v}=1 THEN Z=2", "n"), ("ON {v} GOTO 900", "n"),
    ("SOUND {v},1", "n"), ("Z=ABS({v})", "n"), ("Z=INT({v})", "n"),
    ("{v}$=\"A\"", "s"), ("Z$={v}$+\"B\"", "s"), ("READ {v}$", "s"), ("INPUT {v}$", "s"), ("LINE INPUT {v}$", "s"), ("DIM {v}$", "s"),
    ("PRINT {v}$", "s"), ("Z=LEN({v}$)", "s"), ("IF {v}$=\"A\" THEN Z=1", "s"), ("PLAY {v}$", "s"), ("Z=VAL({v}$)", "s"),
    ("{v}(1)=1", "na"), ("Z={v}(1)+1", "na"), ("DIM {v}(3)", "na"), ("DIM {v}(1,2)", "na"), ("Z=VARPTR({v}(1))", "na"), ("PRINT {v}(2)", "na"),
    ("{v}$(1)=\"A\"", "sa"), ("Z$={v}$(1)", "sa"), ("DIM {v}$(3)", "sa"), ("PRINT {v}$(2)", "sa"),
]


for _nm, _l in positions.NUM_POSITIONS:
    if len(_l) == 1 and " 90" not in _l[0]:
        POS.append((_l[0][3:].replace("{n}", "{v}"), "n"))
        POS.append((_l[0][3:].replace("{n}", "{v}(1)"), "na"))
for _nm, _l in positions.STR_POSITIONS:
    if len(_l) == 1 and " 90" not in _l[0]:
        POS.append((_l[0][3:].replace("{s}", "{v}$"), "s"))
        if "INPUT" not in _l[0]:
            POS.append((_l[0][3:].replace("{s}", "{v}$(1)"), "sa"))


def template_vars(tpl):
    """the other variables of a position template, as Color BASIC reads it (the slot holds a literal while lexing)"""
    toks = decblex.lex_body(tpl.replace("{v}$(", "Q8$(").replace("{v}(", "Q8(").replace("{v}$", "\"\"").replace("{v}", "0"))
    out = []
    for k, t in enumerate(toks):
        if t["k"] == "id" and t["v"] not in ("Q8", "Q8$"):
            v = {"name": list(t["s"]), "arr": k + 1 < len(toks) and toks[k + 1]["v"] == "("}
            if v not in out:
                out.append(v)
    return out


def mc_names(rep, wd):
    r = rep.tlc(common.run_tlc("Names", cfg="MC_Names.cfg", wd=wd, dump=False))
    if "Error" in r.out or r.distinct < 1000:
        raise common.MachineryError("MC_Names did not complete:\n" + r.out[-1500:])
    rep.count("mc_names_states", r.distinct)


def use(name, pos):
    tpl, kind = pos
    return tpl.replace("{v}", name), {"name": list((name + ("$" if kind in ("s", "sa") else "")).encode()), "arr": kind in ("na", "sa")}


def main():
    rep = common.Report(PID)
    T = common.tier()
    rng = random.Random(common.seed())
    wd = common.workdir(PID)
    thorough = T == "thorough"
    mc_names(rep, wd)
    # (G) names: all of length 1-2, and length 3-4 over a tail alphabet that spells keywords at every offset
    n = len(ALNUM)
    short = gen.gen_seqs(rep, wd, "short", n, list(range(26)), list(range(n)), [(a, b) for a in range(n) for b in range(n)], 2)
    names = ["".join(ALNUM[x] for x in s) for s in short]
    tail = ["A", "Z", "0", "9", "O", "R", "T", "N", "F"]
    ti = [ALNUM.index(c) for c in tail]
    longs = gen.gen_seqs(rep, wd, "long", n, [ALNUM.index(c) for c in "AZXT"], ti, [(a, b) for a in [ALNUM.index(c) for c in "AZXT"] + ti for b in ti], 4)
    names_long = ["".join(ALNUM[x] for x in s) for s in longs if len(s) >= 3]
    rep.count("names_len_1_2", len(names))
    rep.count("names_len_3_4", len(names_long))
    plan = []

    def add(n1, p1, n2, p2):
        s1, v1 = use(n1, p1)
        s2, v2 = use(n2, p2)
        lines = ["10 " + s1, "20 " + s2, "900 DATA 1,2:END"]
        plan.append({"lines": lines, "vars": [v1, v2] + template_vars(p1[0]) + template_vars(p2[0])})
    # a spelling Color BASIC's tokeniser does not read as one name (ATN, XTO, ..) is handled with the keyword-shaped names below
    def isname(nm):
        return all(len(t) == 1 and t[0]["k"] == "id" for t in (decblex.lex_body(nm), decblex.lex_body(nm + "$")))
    odd = [nm for nm in names + names_long if not isname(nm)]
    names = [nm for nm in names if isname(nm)]
    names_long = [nm for nm in names_long if isname(nm)]
    rep.count("names_with_a_keyword_inside", len(odd))
    allnames = names + names_long
    # every name once in every position class, paired with a near neighbour (same first two characters / suffix / kind variants)
    for k, nm in enumerate(names if thorough else gen.sample(rng, names, 330)):
        for pos in gen.sample(rng, POS, 40 if thorough else 4):
            partner = rng.choice([nm, nm + "X", nm[:2] + "9", nm[0], nm[0] + "Q", rng.choice(allnames)])
            add(nm, pos, partner if isname(partner) else nm, rng.choice(POS))
    for nm in (names_long if thorough else gen.sample(rng, names_long, 250)):
        for pos in gen.sample(rng, POS, 6 if thorough else 2):
            partner = nm[:2] + rng.choice(["", "A", "ZZ"])
            add(nm, pos, partner if isname(partner) else nm, rng.choice(POS))
    # names beginning with a two-letter BASIC09 reserved word that Color BASIC allows (DO, PI, SQ): all spellings are one variable
    for w in ("DO", "PI", "SQ"):
        for a, b in ((w + "G", w + "T"), (w + "1", w), (w + "G", w), (w + "GS", w + "1")):
            for pos in gen.sample(rng, [p for p in POS if p[1] in ("n", "na")], 6):
                add(a, pos, b, rng.choice([p for p in POS if p[1] == pos[1]]))
            for pos in gen.sample(rng, [p for p in POS if p[1] in ("s", "sa")], 3):
                add(a, pos, b, rng.choice([p for p in POS if p[1] == pos[1]]))
    if thorough:
        for _ in range(40000):
            add(rng.choice(allnames), rng.choice(POS), rng.choice(allnames), rng.choice(POS))
    res = common.run_real("w_convert", [{"src": "\n".join(p["lines"]), "opts": {"add_standard_prefix": False, "initialize_vars": bool(i % 2)}}
                                        for i, p in enumerate(plan)])
    cases, meta = [], []
    for p, r in zip(plan, res):
        if "out" not in r:
            rep.count("refused")            # names that start with a keyword are not variables for the tool's grammar
            continue
        cases.append({"id": len(cases) + 1, "vars": p["vars"], "out": b09lex.lex_nonblank(r["out"])})
        meta.append(("\n".join(p["lines"]), r["out"]))
    # keyword-shaped names: every position of one name forms a group (a variable everywhere, or nowhere)
    kws = sorted({w for w in decblex.KEYWORDS if w.isalpha()})
    kwnames = sorted(set(kws + [w + "X" for w in kws] + [w[:k] for w in kws for k in range(2, len(w))] + ["ERRO", "ERN", "TOX", "ONE", "IFF", "ORB", "FNA"]))
    if not thorough:
        kwnames = sorted(set(kws + gen.sample(rng, kwnames, 60) + gen.sample(rng, odd, 40)))
    else:
        kwnames = sorted(set(kwnames + odd))
    gplan = []
    for nm in kwnames:
        for pos in (POS if nm in kws else POS[:36] + gen.sample(rng, POS[36:], 60 if thorough else 40)):
            s1, v1 = use(nm, pos)
            gplan.append((nm, pos, v1, "10 " + s1 + "\n900 DATA 1,2:END"))
    gres = common.run_real("w_convert", [{"src": g[3], "opts": {"add_standard_prefix": False, "initialize_vars": False}} for g in gplan])
    groups = {}
    for (nm, pos, v1, src), r in zip(gplan, gres):
        if "out" not in r:
            rep.count("keyword_name_refused")
            continue
        rep.count("keyword_name_accepted")
        # the other variables of the statement as Color BASIC itself reads it (CLSX=1 is CLS X=1)
        toks = decblex.lex_body(src.split("\n")[0][3:])
        alt = [{"name": list(t["s"]), "arr": k + 1 < len(toks) and toks[k + 1]["v"] == "("} for k, t in enumerate(toks) if t["k"] == "id"]
        # the other variables of the position itself (when the tool does take the name for a variable)
        extras = template_vars(pos[0])
        groups.setdefault(nm, []).append({"vars": [v1] + extras, "alt": alt, "out": b09lex.lex_nonblank(r["out"]), "src": src, "text": r["out"]})
    for nm, uses in sorted(groups.items()):
        cases.append({"id": len(cases) + 1, "uses": [{"vars": u["vars"], "alt": u["alt"], "out": u["out"]} for u in uses]})
        meta.append((" || ".join(u["src"].split("\n")[0] for u in uses), " || ".join(u["text"].strip().split("\n")[0] for u in uses)))
    rep.count("keyword_shaped_names", len(kwnames))
    vds = common.judge("Trace_C09", cases, rep, wd, shard=6000)
    ok = []
    for (src, out), v, c in zip(meta, vds, cases):
        rep.cov["traces_validated_against_impl"] += 1
        if v["ok"]:
            rep.count("accepted")
            if "uses" not in c:
                ok.append((src, out, c))
            rep.sample({"src": src, "out": out.strip(), "verdict": "ok"}, cap=5)
        else:
            rep.count("rejected")
            rep.bad(v["key"], "%s -> %s [%s]" % (src.replace("\n", " | "), out.strip().replace("\n", " | ")[:300], v["detail"]),
                    {"src": src, "out": out, "verdict": v})
    # canaries: rename one user identifier in the emitted text (aliasing / splitting)
    picked = []
    for src, out, c in gen.sample(rng, ok, 120):
        lines = [list(l) for l in c["out"]]
        cand = [(i, j) for i, l in enumerate(lines) for j, t in enumerate(l) if t["k"] == "id" and len(t["v"]) <= 3 and t["v"] not in ("TO", "IF", "ON", "OR", "END", "FOR", "DIM", "RUN")]
        if not cand:
            continue
        i, j = rng.choice(cand)
        # every occurrence gets a name no source variable can map to (three or more characters before the suffix)
        old = lines[i][j]["v"]
        for a, l in enumerate(lines):
            for b, t in enumerate(l):
                if t["k"] == "id" and t["v"] == old:
                    t2 = dict(t)
                    dollar = t2["v"].endswith("$")
                    base = t2["v"][:-1] if dollar else t2["v"]
                    t2["v"] = base + "QQ" + ("$" if dollar else "")
                    t2["s"] = list((base + "QQ" + ("$" if dollar else "")).encode())
                    lines[a][b] = t2
        picked.append({"id": len(picked) + 1, "vars": c["vars"], "out": lines})
        if len(picked) >= 40:
            break
    cv = common.judge("Trace_C09", picked, rep, wd)
    rej = sum(1 for v in cv if not v["ok"])
    rep.count("canaries", len(picked))
    rep.count("canaries_rejected", rej)
    if rej < len(picked):
        raise common.MachineryError("canaries: %d of %d renamed identifiers went unnoticed" % (len(picked) - rej, len(picked)))
    return rep.finish({"exhaustive": False, "positions": len(POS)})


if __name__ == "__main__":
    common.main_wrap(main)
