"""Worker: run the real command line entry point coco.decb_to_b09.start() on temp files.

in : [{"src": str, "stem": str, "flags": [str]}]
out: [{"bytes": [..]} | {"exc": type-name, "msg": str}]
"""
import json
import os
import sys
import tempfile

from coco import decb_to_b09  # noqa: E402


def one(c):
    d = tempfile.mkdtemp(prefix="verifcli")
    try:
        src = os.path.join(d, c["stem"] + c.get("ext", ".bas"))
        dst = os.path.join(d, "out.b09")
        with open(src, "w", newline="") as f:
            f.write(c["src"])
        try:
            decb_to_b09.start(list(c["flags"]) + [src, dst])
        except SystemExit as ex:
            return {"exc": "SystemExit", "msg": str(ex.code)}
        except BaseException as ex:  # noqa: BLE001
            return {"exc": type(ex).__name__, "mod": type(ex).__module__ or "", "msg": str(ex)[:200]}
        with open(dst, "rb") as f:
            return {"bytes": list(f.read())}
    finally:
        for n in os.listdir(d):
            os.remove(os.path.join(d, n))
        os.rmdir(d)


def main():
    with open(sys.argv[1]) as f:
        cases = json.load(f)
    with open(sys.argv[2], "w") as f:
        json.dump([one(c) for c in cases], f)


if __name__ == "__main__":
    main()
