"""C05 - functions turned into procedure calls are evaluated once, first, and in order.

(G) spec/GenExpr.tla enumerates nestings of convertible functions; each is placed in every statement kind that
carries an expression.  (V) spec/Trace_Refine.tla compares the sequence of function calls (with argument values,
device values scripted so that order is observable), flags reads of unassigned temporaries and lost operands.
"""
import random

from harness import common, gen, refcheck, positions

PID = "C05"
CONV = ("INT", "VAL", "STR$", "HEX$", "INSTR", "STRING$", "INKEY$", "BUTTON", "JOYSTK", "POINT")

# {n}: numeric expression holes, {s}: string expression holes
CONTEXTS = [
    ("assign", ["10 Z={n}"]),
    ("assign2", ["10 Z={n}+{n}"]),
    ("sassign", ["10 Z$={s}"]),
    ("arr-target", ["7 DIM C(9)", "10 C({n})={n}"]),
    ("arr-read", ["7 DIM C(9)", "8 C(1)=4:C(2)=6", "10 Z=C({n})+{n}"]),
    ("if", ["10 IF {n}=1 THEN Z={n}", "20 Y=1"]),
    ("if-str", ["10 IF {s}=\"A\" THEN Z={n}", "20 Y=1"]),
    ("if-goto", ["10 IF {n}>1 THEN 30", "20 Z=1", "30 Y=1"]),
    ("if-else", ["10 IF {n}=1 THEN Z={n} ELSE Z={n}"]),
    ("if-else-line", ["10 IF {n}=1 THEN 30 ELSE Z={n}", "30 Y=1"]),
    ("if-elseif", ["10 IF {n}=1 THEN Z=1 ELSE IF {n}=2 THEN Z=2 ELSE Z={n}"]),
    ("for", ["10 FOR I={n} TO {n} STEP {n}:Z=Z+1:NEXT I"]),
    ("for2", ["10 FOR I=1 TO {n}:Z=Z+{n}:NEXT"]),
    ("print", ["10 PRINT {n};{s};{n}"]),
    ("print-comma", ["10 PRINT {s},{n}"]),
    ("print-at", ["10 PRINT @{n},{n};{s}"]),
    ("on", ["10 ON {n} GOTO 20,30", "15 Z=5:END", "20 Z=1:END", "30 Z=2"]),
    ("on-gosub", ["10 ON {n} GOSUB 20,30:Z=Z+5:END", "20 Z=1:RETURN", "30 Z=2:RETURN"]),
    ("if-gosub", ["10 IF {n}>1 THEN GOSUB 20:Y={n}", "15 END", "20 Z={n}:RETURN"]),
    ("after-comment", ["10 REM X", "20 ON {n} GOTO 30,30", "30 Z={n}"]),
    ("after-assign-of-function", ["10 X=1:A$=\"7\":Z={n}", "20 C(1)={n}"]),
    ("read", ["7 DIM C(9)", "8 DATA 5,6", "10 READ C({n}),Z"]),
    ("input", ["7 DIM C(9)", "10 INPUT C({n})"]),
    ("width", ["10 WIDTH {n}"]),
    ("sound", ["10 SOUND {n},{n}"]),
    ("hcircle", ["10 HCIRCLE({n},{n}),{n}"]),
    ("hprint", ["10 HPRINT({n},{n}),{s}"]),
    ("poke", ["10 POKE {n},{n}"]),
    ("loop", ["10 Z=Z+{n}:N=N+1:IF N<2 THEN 10"]),
    ("loop-if", ["10 N=N+1:IF {n}+N<9 THEN IF N<2 THEN 10"]),
    # the statement before, on the same line, changes what the arguments read: a call hoisted too far up sees the old values
    ("after-argument-changed:on", ["10 B=B+2:A=A+1:ON {n} GOTO 20,30,20,30", "15 Z=5:END", "20 Z=1:END", "30 Z=2"]),
    ("after-argument-changed:on", ["10 A=A+1:B=B+2:ON {n} GOTO 20,30,20,30", "15 Z=5:END", "20 Z=1:END", "30 Z=2"]),
    ("after-argument-changed:on-gosub", ["10 B=B+2:A=A+1:ON {n} GOSUB 20,30,20,30:Z=Z+5:END", "20 Z=1:RETURN", "30 Z=2:RETURN"]),
    ("after-argument-changed:if", ["10 B=B+2:A=A+1:IF {n}>1 THEN Z=1 ELSE Z=2"]),
    ("after-argument-changed:if", ["10 A=A+1:B=B+2:IF {n}>1 THEN Z=1 ELSE Z=2"]),
    ("after-argument-changed:for", ["10 B=B+2:A=A+1:FOR I=1 TO {n}:Z=Z+1:NEXT"]),
    ("after-argument-changed:print", ["10 A=A+1:A$=A$+\"X\":PRINT {n};{s}", "20 A$=A$+\"X\":A=A+1:PRINT {n};{s}"]),
    ("after-argument-changed:let", ["10 B=B+2:A=A+1:Z={n}", "20 A$=A$+\"X\":Z$={s}", "30 A=A+1:B=B+2:Y={n}"]),
    ("after-argument-changed:device", ["10 B=B+2:A=A+1:SOUND {n},{n}"]),
    ("after-argument-changed:read", ["7 DIM C(9)", "8 DATA 5,6", "10 B=B+2:A=A+1:READ C({n}),Z"]),
    ("builtin", ["10 Z=ABS({n})+LEN({s})"]),
    ("builtin-str", ["10 Z$=LEFT$({s},{n})+MID$({s},{n},1)"]),
]


def fill(template, rng, nums, strs):
    lines = []
    for l in template:
        while "{n}" in l:
            # an operand of a comparison contains no sign or NOT: how the tool groups -X=1 and NOT X=1 is C01's
            # subject (and its recorded findings), not this property's
            after = l[l.index("{n}") + 3:l.index("{n}") + 4]
            pool = [t for t in nums if "-" not in t and "NOT" not in t] if after in ("=", ">", "<", "+") else nums
            l = l.replace("{n}", gen.render(rng.choice(pool)), 1)
        while "{s}" in l:
            l = l.replace("{s}", gen.render(rng.choice(strs)), 1)
        lines.append(l)
    return lines


def scripts():
    out = []
    for a, b, s in (("2", "3", "AB"), ("1", "2", "A"), ("-1", "0", "B")):
        out.append({"inp": [gen.text_bytes(a), gen.text_bytes(b), gen.text_bytes(s), gen.text_bytes("2"), gen.text_bytes("1")],
                    "dev": [1, 0, 2, 3, 1, 2, 0, 1, 3, 2, 1, 0, 2, 3]})
    return out


def mutate(case, rng):
    """canary: swap two adjacent RUN statements (call order) or drop one RUN statement"""
    out = [list(l) for l in case["out"]]
    for ln, toks in enumerate(out):
        seps = [i for i, t in enumerate(toks) if t["k"] == "op" and t["v"] == "\\"]
        runs = [i for i, t in enumerate(toks) if t["k"] == "id" and t["v"] == "RUN"]
        if len(seps) >= 1 and len(runs) >= 1 and not any(t["v"] in ("_ECB_INPUT_PREFIX",) for t in toks):
            # drop the first statement of the group (everything up to the first separator)
            start = 1 if toks[0]["k"] == "int" else 0
            if toks[start]["k"] == "id" and toks[start]["v"] == "RUN":
                out[ln] = toks[:start] + toks[seps[0] + 1:]
                c2 = dict(case)
                c2["out"] = out
                return c2
    return None


def main():
    rep = common.Report(PID)
    T = common.tier()
    rng = random.Random(common.seed())
    wd = common.workdir(PID)
    thorough = T == "thorough"
    nums = gen.gen_exprs(rep, wd, "n", Grammar='"num"', MaxOps="3", MaxLen="14", NumLeaves='{"A", "2"}',
                         Arith='{"+"}', Logic="{}", WithNot="TRUE", WithNeg="TRUE", WithParen="TRUE",
                         NumFun1='{"ABS", "INT", "BUTTON", "JOYSTK"}', StrLeaves='{"A$", "S:AB"}',
                         StrToNum='{"LEN", "VAL"}', NumToStr='{"STR$", "HEX$"}', Str2='{"LEFT$"}', Str3="{}",
                         WithInstr="TRUE", WithStringS="TRUE", WithInkey="TRUE")
    strs = gen.gen_exprs(rep, wd, "s", Grammar='"str"', MaxOps="3" if thorough else "2", MaxLen="14", NumLeaves='{"A", "2"}',
                         Arith='{"+"}', Logic="{}", WithNot="FALSE", WithNeg="FALSE", WithParen="FALSE",
                         NumFun1='{"INT", "BUTTON"}', StrLeaves='{"A$", "S:AB"}',
                         StrToNum='{"LEN"}', NumToStr='{"STR$", "HEX$", "CHR$"}', Str2='{"LEFT$", "RIGHT$"}', Str3='{"MID$"}',
                         WithInstr="TRUE", WithStringS="TRUE", WithInkey="TRUE")
    hasconv = lambda t: any(x in CONV for x in t)
    nums_c = [t for t in nums if hasconv(t)]
    strs_c = [t for t in strs if hasconv(t)] or strs
    rep.count("generated_numeric_nestings", len(nums_c))
    rep.count("generated_string_nestings", len(strs_c))
    plan = []
    seen = set()

    def add(tag, body, init):
        lines = ["5 INPUT A,B,A$"] + body
        key = ("\n".join(lines), init)
        if key in seen:
            return
        seen.add(key)
        plan.append({"lines": lines, "opts": {"add_standard_prefix": False, "initialize_vars": init}, "scripts": scripts(),
                     "fuel": 120, "tag": tag})
    # every nesting once in the assignment context (exhaustive up to the bound) ...
    for t in (nums_c if thorough else gen.sample(rng, nums_c, 500)):
        add("assign", ["10 Z=%s" % gen.render(t)], False)
    for t in (strs_c if thorough else gen.sample(rng, strs_c, 250)):
        add("sassign", ["10 Z$=%s" % gen.render(t)], False)
    # ... and random fillings of every statement kind
    per = 400 if thorough else 45
    for tag, tpl in CONTEXTS:
        for k in range(per):
            add(tag, fill(tpl, rng, nums_c, strs_c), k % 2 == 0)
    # every expression position of the grammar (harness/positions.py) with a nest of convertible functions in it
    simple_n = [t for t in nums_c if len(t) <= 9 and "-" not in t and "NOT" not in t]
    simple_s = [t for t in strs_c if len(t) <= 9]
    for nm, lines in positions.NUM_POSITIONS:
        if nm in ("elseif-condition", "elseif-arm"):
            # an ELSE IF chain without a final ELSE spins in the emitted LOOP (C02's recorded finding): nothing after it can be
            # judged; the chains with a final ELSE (here and in CONTEXTS) cover the same positions
            continue
        for k in range(4 if thorough else 2):
            body = positions.fill(lines, "{n}", gen.render(rng.choice(simple_n)))
            lines2 = ["5 INPUT A,B,A$", "7 DIM C(9),D(2,9)"] + body + ([] if any(l.startswith("90 ") for l in body) else ["90 END"])
            key = ("\n".join(lines2), True)
            if key not in seen:
                seen.add(key)
                plan.append({"lines": lines2, "opts": {"add_standard_prefix": False, "initialize_vars": True}, "scripts": scripts(), "fuel": 120, "tag": "pos:" + nm})
    for nm, lines in positions.STR_POSITIONS:
        if nm in ("input-prompt-target", "elseif-condition"):        # a variable position; the spinning chain (see above)
            continue
        for k in range(4 if thorough else 2):
            body = positions.fill(lines, "{s}", gen.render(rng.choice(simple_s)))
            lines2 = ["5 INPUT A,B,A$", "7 DIM C(9),D(2,9)"] + body + ["90 END"]
            key = ("\n".join(lines2), True)
            if key not in seen:
                seen.add(key)
                plan.append({"lines": lines2, "opts": {"add_standard_prefix": False, "initialize_vars": True}, "scripts": scripts(), "fuel": 120, "tag": "spos:" + nm})
    cases, vds = refcheck.run(rep, wd, plan)
    for c in cases:
        rep.count("ctx:" + c["tag"].split(":")[0])
    ok = refcheck.tally(rep, cases, vds)
    picked, cv, rejected = refcheck.canaries(rep, rng, ok, wd, mutate)
    o = {"add_standard_prefix": False}
    f = ["5 INPUT A,B,A$"]
    refcheck.fixed_canaries(rep, wd, [
        (f + ["10 Z=BUTTON(0)+JOYSTK(1)"], o, scripts(), "RUN ecb_button(0.0, tmp_1) \\ RUN ecb_joystk(1.0, tmp_2)", "RUN ecb_joystk(1.0, tmp_2) \\ RUN ecb_button(0.0, tmp_1)"),
        (f + ["10 Z=INT(A)+1"], o, scripts(), "RUN ecb_int(A, tmp_1) \\ ", "tmp_1 := A \\ "),
        (f + ["6 N=0:Z=0", "10 Z=INT(A)+1:N=N+1:IF N<2 THEN 10"], o, scripts(), "10 RUN ecb_int(A, tmp_1) \\ ", "RUN ecb_int(A, tmp_1)\n10 "),
        (f + ["10 Z=INT(A)+INT(B)"], o, scripts(), "RUN ecb_int(B, tmp_2)", "RUN ecb_int(B, tmp_1)"),
        (f + ["10 Z=INT(A)+INT(B)"], o, scripts(), "RUN ecb_int(A, tmp_1) \\ RUN ecb_int(B, tmp_2)", "RUN ecb_int(B, tmp_2) \\ RUN ecb_int(A, tmp_1)"),
        (f + ["10 IF INKEY$=\"A\" THEN Z=1", "20 Y=1"], o, scripts(), "RUN inkey(tmp_1$) \\ ", "RUN inkey(tmp_1$) \\ RUN inkey(tmp_1$) \\ "),
    ])
    return rep.finish({"exhaustive": False, "bounds": {"nesting_ops": 3 if thorough else 2, "contexts": len(CONTEXTS)}})


if __name__ == "__main__":
    common.main_wrap(main)
