"""C04 - screen, graphics and sound statements reach the runtime with the right operands.

Every device statement form x presence pattern of optional operands x operand shape is converted by the real tool;
spec/Trace_C04.tla runs source and target: the source emits dev(procedure, operand values by role, documented
defaults for omitted operands), the target's RUN is read through the PARAM lines of the library in the working tree.
"""
import itertools
import random

from harness import common, gen, refcheck

PID = "C04"
# {0}..{6}: numeric operands; $: a string operand
FORMS = [
    "CLS", "CLS {0}", "PRINT @{0},\"X\"", "PRINT @{0}", "LOCATE {0},{1}",
    "ATTR {0},{1}", "ATTR {0},{1},B", "ATTR {0},{1},U", "ATTR {0},{1},B,U", "ATTR {0},{1},U,B", "ATTR {0},{1},U,U,B",
    "WIDTH {0}", "PALETTE {0},{1}", "PALETTE RGB", "PALETTE CMP", "RGB", "CMP",
    "HSCREEN", "HSCREEN {0}", "HCLS", "HCLS {0}", "HCOLOR {0}", "HCOLOR {0},{1}",
    "HCIRCLE({0},{1}),{2}", "HCIRCLE({0},{1}),{2},{3}", "HCIRCLE({0},{1}),{2},{3},{4}", "HCIRCLE({0},{1}),{2},,{3}",
    "HCIRCLE({0},{1}),{2},{3},{4},{5},{6}", "HCIRCLE({0},{1}),{2},,{3},{4},{5}",
    "HLINE({0},{1})-({2},{3}),PSET", "HLINE({0},{1})-({2},{3}),PRESET", "HLINE({0},{1})-({2},{3}),PSET,B",
    "HLINE({0},{1})-({2},{3}),PRESET,BF", "HLINE-({0},{1}),PSET", "HLINE-({0},{1}),PRESET,B", "HLINE-({0},{1}),PSET,BF",
    "HSET({0},{1})", "HSET({0},{1},{2})", "HRESET({0},{1})",
    "HPAINT({0},{1})", "HPAINT({0},{1}),{2}", "HPAINT({0},{1}),{2},{3}",
    "HPRINT({0},{1}),$", "HPRINT({0},{1}),{2}", "HDRAW $", "PLAY $", "HBUFF {0},{1}",
    "HGET({0},{1})-({2},{3}),{4}",
    "HPUT({0},{1})-({2},{3}),{4},PSET", "HPUT({0},{1})-({2},{3}),{4},PRESET", "HPUT({0},{1})-({2},{3}),{4},AND",
    "HPUT({0},{1})-({2},{3}),{4},OR", "HPUT({0},{1})-({2},{3}),{4},NOT", "HPUT({0},{1})-({2},{3}),{4},XOR",
    "SET({0},{1},{2})", "RESET({0},{1})", "SOUND {0},{1}",
    "POKE 65497,{0}", "POKE 65496,{0}", "POKE &HFFD9,{0}", "POKE &HFFD8,{0}", "POKE 65497.0,{0}", "POKE {0},{1}", "POKE 1024,{0}",
    "POKE 65497,0:SOUND {0},{1}", "POKE 65497,0:POKE 65496,0:SOUND {0},{1}",
    "Z=BUTTON({0})", "Z=JOYSTK({0})", "Z=POINT({0},{1})", "Z$=INKEY$", "IF INKEY$=\"\" THEN Z=1",
]
VARS = "ABCDEFG"


def operand(shape, k):
    lit = str(11 + k)
    if shape == "lit":
        return lit
    if shape == "var":
        return VARS[k]
    if shape == "exp":
        return "%s+%d" % (VARS[k], k + 1)
    if shape == "par":
        return "(%s)*2" % VARS[k]
    if shape == "neg":
        return "-%s" % VARS[k]
    if shape == "not":
        return "NOT %s" % VARS[k]
    return "INT(%s)+%d" % (VARS[k], k)      # conv


def nslots(form):
    return max([int(c) for i, c in enumerate(form) if c.isdigit() and i > 0 and form[i - 1] == "{"] + [-1]) + 1


def instantiate(form, shapes, sshape):
    s = form
    for k, sh in enumerate(shapes):
        s = s.replace("{%d}" % k, operand(sh, k))
    return s.replace("$", {"lit": "\"AB\"", "var": "S$", "exp": "S$+\"X\"", "conv": "STR$(A)"}[sshape])


def scripts():
    out = []
    for base in (20, 1):
        vals = [str(base + 2 * i) for i in range(7)]
        out.append({"inp": [gen.text_bytes(v) for v in vals] + [gen.text_bytes("U4")], "dev": [3, 1, 2, 0]})
    return out


def mutate(case, rng):
    """canary: swap two arguments of a device RUN in the emitted text, or change a default constant"""
    out = [list(l) for l in case["out"]]
    for ln, toks in enumerate(out):
        idx = [i for i, t in enumerate(toks) if t["k"] == "id" and t["v"] == "RUN"]
        for i in idx:
            if i + 2 < len(toks) and toks[i + 1]["v"].startswith("ECB_") and toks[i + 2]["v"] == "(":
                depth = 0
                commas = []
                j = i + 2
                while j < len(toks):
                    if toks[j]["v"] == "(":
                        depth += 1
                    elif toks[j]["v"] == ")":
                        depth -= 1
                        if depth == 0:
                            break
                    elif toks[j]["v"] == "," and depth == 1:
                        commas.append(j)
                    j += 1
                if len(commas) >= 2:
                    a = toks[i + 3:commas[0]]
                    b = toks[commas[0] + 1:commas[1]]
                    if [t["v"] for t in a] != [t["v"] for t in b]:
                        out[ln] = toks[:i + 3] + b + [toks[commas[0]]] + a + toks[commas[1]:]
                        c2 = dict(case)
                        c2["out"] = out
                        return c2
    return None


def main():
    rep = common.Report(PID)
    T = common.tier()
    rng = random.Random(common.seed())
    wd = common.workdir(PID)
    thorough = T == "thorough"
    plan = []
    for form in FORMS:
        n = nslots(form)
        combos = [tuple(["lit"] * n), tuple(["var"] * n), tuple(["exp"] * n)]
        for k in range(n):
            c = ["lit"] * n
            c[k] = "conv"
            combos.append(tuple(c))
            c = ["var"] * n
            c[k] = "par"
            combos.append(tuple(c))
            for sh in ("neg", "not"):
                c = ["var"] * n
                c[k] = sh
                combos.append(tuple(c))
        if thorough:
            allc = list(itertools.product(["lit", "var", "exp", "conv"], repeat=n))
            combos += gen.sample(rng, allc, 60)
        seen = set()
        for c in combos:
            for sshape in (["lit", "var", "exp", "conv"] if "$" in form else ["lit"]):
                stmt = instantiate(form, c, sshape)
                if stmt in seen:
                    continue
                seen.add(stmt)
                for prefix in ((True, False) if (thorough or c == combos[0]) else (False,)):
                    plan.append({"lines": ["5 INPUT A,B,C,D,E,F,G,S$", "10 " + stmt],
                                 "opts": {"add_standard_prefix": prefix, "initialize_vars": bool(len(plan) % 2)},
                                 "scripts": scripts(), "fuel": 120, "tag": form, "prefix": prefix})
    # every form (variable operands) in other placements: before another statement, before another line, in the arms of an IF, in a loop
    first = "5 INPUT A,B,C,D,E,F,G,S$"
    for form in FORMS:
        if form.startswith("IF "):
            continue
        st = instantiate(form, ["var"] * nslots(form), "var")
        for tag, lines in (("then-next-statement", [first, "10 " + st + " :Z=1"]), ("then-next-line", [first, "10 " + st, "20 Z=1:Y=2"]),
                           ("in-THEN-arm", [first, "10 IF A=11 THEN Z=1 ELSE " + st, "20 Y=2"]), ("in-ELSE-and-THEN-arms", [first, "10 IF A=20 THEN " + st + " ELSE " + st, "20 Y=2"]),
                           ("in-loop", [first, "10 FOR I=1 TO 2:" + st + ":NEXT:Y=2"]),
                           ("after-assignment-to-its-operands", [first, "10 A=A+1:B=B+2:C=C+3:D=D+1:" + instantiate(form, ["conv"] * nslots(form), "conv")]),
                           ("as-jump-target", [first, "10 GOTO 30", "20 Z=1", "30 " + instantiate(form, ["conv"] * nslots(form), "conv")])):
            plan.append({"lines": lines, "opts": {"add_standard_prefix": len(plan) % 3 == 0, "initialize_vars": bool(len(plan) % 2)},
                         "scripts": scripts(), "fuel": 160, "tag": form, "prefix": len(plan) % 3 == 0})
        if "HBUFF" in form or "HGET" in form or "HPUT" in form:
            # the buffer prologue under every combination of the options that add text around the program
            for pre in (True, False):
                for suf in (True, False):
                    for init in (True, False):
                        plan.append({"lines": [first, "10 " + st, "20 Z=1"], "opts": {"add_standard_prefix": pre, "add_suffix": suf, "initialize_vars": init},
                                     "scripts": scripts(), "fuel": 160, "tag": form, "prefix": pre})
    rep.count("forms", len(FORMS))
    cases, vds = refcheck.run(rep, wd, plan, module="Trace_C04", extra_case=lambda p: {"prefix": p["prefix"]})
    forms_ok = set()
    for c, v in zip(cases, vds):
        if v["ok"] and v["clause"] == "ok":
            forms_ok.add(c["tag"])
    rep.count("forms_accepted_at_least_once", len(forms_ok))
    ok = refcheck.tally(rep, cases, vds)
    picked, cv, rejected = refcheck.canaries(rep, rng, ok, wd, mutate, module="Trace_C04")
    o = {"add_standard_prefix": False}
    first = ["5 INPUT A,B,C,D,E,F,G,S$"]
    refcheck.fixed_canaries(rep, wd, [
        (first + ["10 HCIRCLE(A,B),C"], o, scripts(), "(A, B, C", "(B, A, C"),
        (first + ["10 HCIRCLE(A,B),C"], o, scripts(), "1.0, display", "2.0, display"),
        (first + ["10 SOUND A,B"], o, scripts(), "31.0", "30.0"),
        (first + ["10 CLS"], o, scripts(), "1.0", "0.0"),
        (first + ["10 HCLS"], o, scripts(), "-1", "0"),
        (first + ["10 HLINE(A,B)-(C,D),PSET"], o, scripts(), "\"PSET\"", "\"PRESET\""),
        (first + ["10 HLINE-(C,D),PSET,B"], o, scripts(), "\"r\"", "\"d\""),
        (first + ["10 HPUT(A,B)-(C,D),E,AND"], o, scripts(), "\"AND\"", "\"OR\""),
        (first + ["10 POKE 65497,0:SOUND A,B"], o, scripts(), "play.octo := 1", "play.octo := 0"),
        (first + ["10 ATTR A,B,U"], o, scripts(), "0.0, 1.0, display", "1.0, 0.0, display"),
        (first + ["10 HBUFF A,B"], {"add_standard_prefix": True}, scripts(), "RUN _ecb_init_hbuff(pid)", "REM"),
    ], module="Trace_C04", extra={"prefix": True})
    return rep.finish({"exhaustive": False, "forms": len(FORMS)})


if __name__ == "__main__":
    common.main_wrap(main)
