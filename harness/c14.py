"""C14 - every emitted runtime call matches the declared interface of its procedure.

spec/Trace_C14.tla reads the PARAM / TYPE lines of the library text in the working tree (module Lib, parsed by the
BASIC09 grammar in TLA+) and checks every RUN of every emitted program and of the library itself: defined, arity,
class per position, result position is a variable, record types identical field by field.
"""
import random

from harness import common, gen, b09lex, c04, c05

PID = "C14"


def main():
    rep = common.Report(PID)
    T = common.tier()
    rng = random.Random(common.seed())
    wd = common.workdir(PID)
    thorough = T == "thorough"
    plan = []          # (tag, lines, opts)
    # every device statement form x operand shapes (as C04), with the full prologue
    for form in c04.FORMS:
        n = c04.nslots(form)
        shapes = [["lit"] * n, ["var"] * n, ["exp"] * n, ["conv"] * n]
        if thorough:
            shapes += [[rng.choice(["lit", "var", "exp", "conv", "par"]) for _ in range(n)] for _ in range(6)]
        seen = set()
        for sh in shapes:
            for ss in (["lit", "var", "exp", "conv"] if "$" in form else ["lit"]):
                stmt = c04.instantiate(form, sh, ss)
                if stmt in seen:
                    continue
                seen.add(stmt)
                plan.append((form, ["5 DIM H(3)", "10 " + stmt.replace("(A)*2", "H(1)")], {"add_standard_prefix": True}))
    # every convertible function / wrapper in every statement context (as C05)
    nums = [["INT", "(", "A", ")"], ["VAL", "(", "A$", ")"], ["BUTTON", "(", "2", ")"], ["JOYSTK", "(", "A", ")"], ["INSTR", "(", "2", ",", "A$", ",", "S:AB", ")"],
            ["LEN", "(", "STR$", "(", "A", ")", ")"], ["A", "+", "INT", "(", "2", ")"], ["ABS", "(", "VAL", "(", "S:AB", ")", ")"]]
    strs = [["STR$", "(", "A", ")"], ["HEX$", "(", "A", ")"], ["STRING$", "(", "2", ",", "A$", ")"], ["INKEY$"], ["A$", "+", "STR$", "(", "2", ")"],
            ["LEFT$", "(", "HEX$", "(", "2", ")", ",", "INT", "(", "A", ")", ")"],
            ["N$", "(", "1", ")"], ["N$", "(", "INT", "(", "A", ")", ")", "+", "A$"], ["M$", "(", "1", ",", "2", ")"]]
    nums += [["INT", "(", "VAL", "(", "A$", ")", ")"], ["INSTR", "(", "INT", "(", "A", ")", ",", "A$", ",", "STR$", "(", "2", ")", ")"], ["VAL", "(", "HEX$", "(", "INT", "(", "A", ")", ")", ")"]]
    strs += [["STR$", "(", "INT", "(", "A", ")", ")"], ["STRING$", "(", "INT", "(", "A", ")", ",", "S:AB", ")"], ["HEX$", "(", "VAL", "(", "A$", ")", ")"]]
    nums += [["D", "(", "1", ")"], ["LEN", "(", "N$", "(", "2", ")", ")"], ["D", "(", "INT", "(", "A", ")", ")", "+", "1"]]
    for tag, tpl in c05.CONTEXTS:
        for k in range(12 if thorough else 4):
            plan.append(("ctx:" + tag, ["5 INPUT A,B,A$"] + c05.fill(tpl, rng, nums, strs), {"add_standard_prefix": bool(k % 2), "initialize_vars": bool(k % 3)}))
    extra = [
        (["10 INPUT A"], {}), (["10 LINE INPUT \"P\";A$"], {}), (["10 DATA 1,,2", "20 READ A,B,C"], {}), (["10 DATA ,X", "20 READ A,B$"], {}),
        (["10 PRINT A;B$;A+1"], {}), (["10 PRINT @5,A"], {}), (["10 HPRINT(1,2),A"], {}), (["10 HPRINT(1,2),STR$(A)"], {}),
        (["10 HBUFF 1,10:HGET(1,2)-(3,4),1:HPUT(1,2)-(3,4),1,PSET"], {}), (["10 Z=JOYSTK(0):Y=JOYSTK(1)"], {}),
        (["10 ON ERR GOTO 20:ON BRK GOTO 20", "20 END"], {}), (["10 PRINT N$(1);D(2);N$(2)+\"A\""], {}), (["10 DATA ,", "20 READ A,N$(2)"], {}),
        (["10 DATA ,,", "20 READ D(1),N$(2),M$(1,1)"], {}), (["10 HPRINT(1,2),N$(1)"], {}), (["5 DIM N$(3),D(3)", "10 PRINT N$(1);D(2)", "20 HPRINT(1,2),N$(3)"], {}),
        (["10 PLAY N$(1):HDRAW N$(2)"], {}), (["10 INPUT N$(1),D(1)", "20 LINE INPUT N$(2)"], {}), (["10 WIDTH 40:CLS:SOUND 1,1:PLAY \"C\""], {"default_width32": False}),
    ]
    for lines, o in extra:
        plan.append(("extra", lines, dict(o)))
    res = common.run_real("w_convert", [{"src": "\n".join(l), "opts": o} for _, l, o in plan])
    cases, meta = [{"id": 1, "kind": "library", "out": []}], [("library", ["(coco/resources/ecb.b09)"], {}, "")]
    for (tag, lines, o), r in zip(plan, res):
        if "out" not in r:
            rep.count("refused")
            continue
        cases.append({"id": len(cases) + 1, "kind": "program", "out": b09lex.lex_nonblank(r["out"])})
        meta.append((tag, lines, o, r["out"]))
    vds = common.judge("Trace_C14", cases, rep, wd)
    ok = []
    for (tag, lines, o, out), v, c in zip(meta, vds, cases):
        rep.cov["traces_validated_against_impl"] += 1
        if v["clause"] == "unjudged":
            rep.count("unjudged:" + v["key"])
        elif v["ok"]:
            rep.count("accepted")
            if tag == "library":
                rep.count("library_procedures_checked", int(v["detail"].split()[0]))
            else:
                ok.append((lines, out, c))
                rep.count("run_statements_checked", int(v["detail"] or 0))
                rep.sample({"src": "\n".join(lines), "runs": v["detail"], "verdict": "ok"}, cap=5)
        else:
            rep.count("rejected")
            calls = [l.strip() for l in out.split("\n") if "run " in l.lower()]
            rep.bad(v["key"], "%s -> %s [%s]" % (" | ".join(lines), " | ".join(calls)[:300], v["detail"]), {"src": "\n".join(lines), "opts": o, "out": out, "verdict": v})
    # gating canaries: drop / add / retype an argument of a library call in accepted outputs
    picked = []
    for lines, out, c in ok:
        for old, new in ((", display)", ")"), ("(display, ", "(display, 1, "), ("run ecb_locate(", "run ecb_locate(\"X\", "), ("RUN ecb_int(", "RUN ecb_intt("),
                         ("RUN ecb_str(", "RUN ecb_str(\"A\" + "), (", play)", ", display)")):
            if old in out:
                picked.append({"id": len(picked) + 1, "kind": "program", "out": b09lex.lex_nonblank(out.replace(old, new, 1))})
                break
        if len(picked) >= 40:
            break
    if len(picked) < 10:
        raise common.MachineryError("too few canaries")
    cv = common.judge("Trace_C14", picked, rep, wd)
    rej = sum(1 for v in cv if not v["ok"])
    rep.count("canaries", len(picked))
    rep.count("canaries_rejected", rej)
    if rej < len(picked):
        raise common.MachineryError("canaries: %d of %d corrupted calls were accepted" % (len(picked) - rej, len(picked)))
    return rep.finish({"exhaustive": False, "device_forms": len(c04.FORMS), "contexts": len(c05.CONTEXTS)})


if __name__ == "__main__":
    common.main_wrap(main)
