"""Container readers for decoder output (no image-format knowledge): Netpbm P5/P6 and PNG (zlib only).

read_image(bytes) -> {"kind": "P6"|"P5"|"PNG"|"bad", "w", "h", "maxval", "nsamples", "runs": [[r,g,b,n],...], "problem": str}
nsamples = number of sample bytes after the header (Netpbm) / number of pixels decoded (PNG).
Pixels are merged into runs of equal colour; an incomplete trailing pixel is dropped from runs but counted in nsamples.
"""
import re
import struct
import zlib


def merge(pixels):
    runs = []
    for p in pixels:
        if runs and runs[-1][0] == p[0] and runs[-1][1] == p[1] and runs[-1][2] == p[2]:
            runs[-1][3] += 1
        else:
            runs.append([p[0], p[1], p[2], 1])
    return runs


def runs_of_rgb(data):
    runs = []
    n = len(data) // 3
    mv = memoryview(data)
    i = 0
    last = None
    while i < n:
        px = bytes(mv[3 * i:3 * i + 3])
        j = i + 1
        while j < n and mv[3 * j:3 * j + 3] == px:
            j += 1
        if last is not None and last[:3] == [px[0], px[1], px[2]]:
            last[3] += j - i
        else:
            last = [px[0], px[1], px[2], j - i]
            runs.append(last)
        i = j
    return runs


def read_netpbm(b):
    m = re.match(rb"(P[56])\s+(\d+)\s+(\d+)\s+(\d+)\s", b)
    if not m:
        return {"kind": "bad", "w": 0, "h": 0, "maxval": 0, "nsamples": 0, "runs": [], "problem": "no-netpbm-header"}
    kind = m.group(1).decode()
    w, h, mx = int(m.group(2)), int(m.group(3)), int(m.group(4))
    data = b[m.end():]
    if kind == "P6":
        runs = runs_of_rgb(data)
    else:
        runs = runs_of_rgb(bytes(x for v in data for x in (v, v, v)))
    return {"kind": kind, "w": w, "h": h, "maxval": mx, "nsamples": len(data), "runs": runs, "problem": ""}


def read_png(b):
    if b[:8] != b"\x89PNG\r\n\x1a\n":
        return {"kind": "bad", "w": 0, "h": 0, "maxval": 0, "nsamples": 0, "runs": [], "problem": "no-png-signature"}
    pos = 8
    chunks = []
    while pos + 8 <= len(b):
        ln, typ = struct.unpack(">I4s", b[pos:pos + 8])
        chunks.append((typ, b[pos + 8:pos + 8 + ln]))
        pos += 12 + ln
    ihdr = next((d for t, d in chunks if t == b"IHDR"), None)
    if ihdr is None:
        return {"kind": "bad", "w": 0, "h": 0, "maxval": 0, "nsamples": 0, "runs": [], "problem": "no-IHDR"}
    w, h, depth, ctype, _, _, interlace = struct.unpack(">IIBBBBB", ihdr)
    plte = next((d for t, d in chunks if t == b"PLTE"), b"")
    raw = zlib.decompress(b"".join(d for t, d in chunks if t == b"IDAT"))
    bpp = {3: 1, 2: 3, 0: 1, 6: 4}.get(ctype, 1)
    if depth != 8 or interlace:
        return {"kind": "bad", "w": w, "h": h, "maxval": 0, "nsamples": 0, "runs": [], "problem": "unsupported-png-variant"}
    stride = w * bpp
    rows = []
    prev = bytearray(stride)
    pos = 0
    problem = ""
    for y in range(h):
        if pos + 1 + stride > len(raw):
            problem = "short-image-data"
            break
        ft = raw[pos]
        line = bytearray(raw[pos + 1:pos + 1 + stride])
        pos += 1 + stride
        for x in range(stride):
            a = line[x - bpp] if x >= bpp else 0
            bb = prev[x]
            c = prev[x - bpp] if x >= bpp else 0
            if ft == 1:
                line[x] = (line[x] + a) & 255
            elif ft == 2:
                line[x] = (line[x] + bb) & 255
            elif ft == 3:
                line[x] = (line[x] + ((a + bb) >> 1)) & 255
            elif ft == 4:
                p = a + bb - c
                pa, pb, pc = abs(p - a), abs(p - bb), abs(p - c)
                pr = a if pa <= pb and pa <= pc else (bb if pb <= pc else c)
                line[x] = (line[x] + pr) & 255
        rows.append(bytes(line))
        prev = line
    pixels = bytearray()
    badindex = 0
    for line in rows:
        if ctype == 3:
            for v in line:
                if 3 * v + 2 < len(plte):
                    pixels += plte[3 * v:3 * v + 3]
                else:
                    badindex += 1
                    pixels += b"\x00\x00\x00"
        elif ctype == 2:
            pixels += line
        elif ctype == 6:
            for x in range(0, len(line), 4):
                pixels += line[x:x + 3]
        else:
            for v in line:
                pixels += bytes((v, v, v))
    if badindex:
        problem = "pixel-indexes-outside-palette"
    return {"kind": "PNG", "w": w, "h": h, "maxval": 255, "nsamples": len(pixels) // 3, "runs": runs_of_rgb(bytes(pixels)), "problem": problem}


def read_image(b):
    if b[:1] == b"P":
        return read_netpbm(b)
    return read_png(b)
