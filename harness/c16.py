"""C16 - decoders reproduce every pixel and palette entry of an uncompressed image.

(M) spec/ImgGen.tla toy sizes: every behaviour of the encoder decodes to the abstract image (TLC, exhaustive).
(G) the same machine at real size (-simulate): literal actions only, structured extreme byte values and noise
    stretches, 64 rotating palettes (every slot sees every colour code), every header variant / pixel mode.
(V) spec/Trace_Img.tla computes the picture the abstract image denotes (six-bit colour code, nibble / bit-pair / bit
    layouts, MAX pixel modes incl. the artifact state machine in integers) and compares it with the real output.
"""
import random

from harness import common, imgfmt

PID = "C16"


def mc(rep, wd):
    for mod, f in (("ImgGen", "RAW"), ("ImgGen", "MGE"), ("ImgGen", "RAT"), ("LineGen", "CM3"), ("LineGen", "CM3b"), ("LineGen", "VEF")):
        r = rep.tlc(common.run_tlc(mod, cfg="MC_%s_%s.cfg" % (mod, f), wd=wd, dump=False, timeout=600))
        if "Error" in r.out or "violated" in r.out:
            raise common.MachineryError("MC_%s_%s failed:\n%s" % (mod, f, r.out[-1500:]))
        rep.count("mc_states_" + f, r.distinct)


def run(pid, variants, per, once=(), mcfirst=True):
    rep = common.Report(pid)
    rng = random.Random(common.seed())
    wd = common.workdir(pid)
    if mcfirst:
        mc(rep, wd)
    from concurrent.futures import ThreadPoolExecutor
    files = []
    with ThreadPoolExecutor(max_workers=4) as ex:
        for fs in ex.map(lambda v: imgfmt.generate(rep, wd, v, 1 if v[0] in once else per, common.seed()), variants):
            files += fs
    res = imgfmt.decode(files)
    cases = [imgfmt.case_of(i + 1, f, r) for i, (f, r) in enumerate(zip(files, res))]
    vds = common.judge("Trace_Img", cases, rep, wd, shard=60, maxbytes=30_000_000)
    pairs = set()
    for f, c, v in zip(files, cases, vds):
        rep.cov["traces_validated_against_impl"] += 1
        rep.count("variant:" + f["variant"])
        for slot, code in enumerate(c["pal"]):
            pairs.add((slot, code))
        if v["ok"]:
            rep.count("accepted")
            rep.sample({"variant": f["variant"], "file_bytes": len(f["data"]), "palette": c["pal"], "image_runs": len(c["img"]), "pixels_compared": v["detail"]}, cap=5)
        else:
            rep.count("rejected")
            rep.bad(v["key"], "%s palette %s: %s" % (f["variant"], c["pal"], v["detail"]),
                    {"variant": f["variant"], "tool": f["tool"], "args": f["args"], "data_b64": __import__("base64").b64encode(f["data"]).decode(), "verdict": v})
    rep.count("palette_slot_code_pairs_covered", len(pairs))
    return rep, files, cases, vds, wd


def canaries(rep, cases, vds, wd):
    """gating: flip one pixel of a recorded picture that was accepted; the specification must reject it"""
    picked = []
    for c, v in zip(cases, vds):
        if v["ok"] and c["got"]["runs"]:
            c2 = dict(c)
            g = dict(c["got"])
            runs = [list(r) for r in g["runs"]]
            k = len(runs) // 2
            runs[k] = [runs[k][0] ^ 85, runs[k][1], runs[k][2], runs[k][3]]
            g["runs"] = runs
            c2["got"] = g
            picked.append(c2)
        if len(picked) >= 6:
            break
    if not picked:
        raise common.MachineryError("no accepted picture to build a canary from")
    cv = common.judge("Trace_Img", picked, rep, wd, shard=60, maxbytes=30_000_000)
    rej = sum(1 for v in cv if not v["ok"])
    rep.count("canaries", len(picked))
    rep.count("canaries_rejected", rej)
    if rej < len(picked):
        raise common.MachineryError("canaries: %d of %d falsified pictures were accepted" % (len(picked) - rej, len(picked)))


def main():
    thorough = common.tier() == "thorough"
    sweep = imgfmt.variants_palette_sweep()
    sweepnames = {v[0] for v in sweep}
    rep, files, cases, vds, wd = run(PID, imgfmt.variants_uncompressed() + imgfmt.variants_cm3_raw() + sweep, 24 if thorough else 3, sweepnames)
    codes = {(c["fmt"], c["cmp"], code) for f, c in zip(files, cases) if f["variant"] in sweepnames for code in c["pal"]}
    rep.count("sweep_format_kind_code_triples", len(codes))
    for fmt, cmp_ in sorted({(a, b) for a, b, _ in codes}):
        if len({c for a, b, c in codes if (a, b) == (fmt, cmp_)}) != 64:
            raise common.MachineryError("palette sweep of %s/%d does not hold all 64 codes" % (fmt, cmp_))
    canaries(rep, cases, vds, wd)
    return rep.finish({"exhaustive": False, "formats": "HRS, MGE raw, VEF raw 0/1/3, MAX x 9 modes, ART, PIX, CM3 raw lines 1/2 pages with/without pattern block"})


if __name__ == "__main__":
    common.main_wrap(main)
