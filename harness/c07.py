"""C07 - accepted programs yield structurally well-formed BASIC09 text.

The emitted token stream is the trace; spec/Trace_C07.tla accepts it iff the BASIC09 recogniser of spec/B09.tla
(statement grammar, expression grammar with all operands present, block keywords matched with a push-down stack)
consumes all of it.  The recogniser itself is validated on the 1425 lines of the hand-written runtime library.
"""
import glob
import os
import random

from harness import common, gen, b09lex, corpus

PID = "C07"


def srcvars(src):
    from harness import decblex
    names = set()
    for ln in decblex.lex_program(src):
        for t in ln["toks"]:
            if t["k"] == "id":
                names.add(t["v"])
    return sorted(names)


def main():
    rep = common.Report(PID)
    T = common.tier()
    rng = random.Random(common.seed())
    wd = common.workdir(PID)
    thorough = T == "thorough"
    pal = corpus.palette()
    plan = []          # (tag, source text, opts)
    base = {"add_standard_prefix": False}
    # every statement form alone, and under the full prologue with dependencies
    for p in pal:
        body = p["text"]
        pre = []
        if p.get("close"):
            pre = {(0,): ["FOR I=1 TO 2"], (1,): ["FOR I=1 TO 2"], (2,): ["FOR J=1 TO 2"],
                   (2, 1): ["FOR I=1 TO 2", "FOR J=1 TO 2"]}[tuple(p["close"])]
        post = ["NEXT"] * len(p.get("open", []))
        lines = ["10 " + ":".join(pre + [body])] + (["20 " + ":".join(post)] if post else []) + corpus.TAIL
        plan.append(("form", "\n".join(lines), dict(base)))
        plan.append(("form", "\n".join(lines), {"initialize_vars": True, "filter_unused_linenum": True}))
    for e in corpus.EDGE:
        for o in (dict(base), {"initialize_vars": True}):
            plan.append(("edge", "\n".join(e), o))
    # bundled example programs, all option bits sampled
    for path in sorted(glob.glob(os.path.join(common.REPO, "examples", "*", "*.bas"))):
        with open(path, encoding="latin-1") as f:
            text = f.read()
        for o in corpus.option_sets(rng, 6 if thorough else 2, pdeps=0.15):
            plan.append(("example:" + os.path.basename(path), text, o))
    # grammar-directed random programs over all statement kinds (spec/GenProg.tla)
    progs = gen.gen_programs(rep, wd, "all", pal, 6 if thorough else 5, 3, maxdepth=2, maxpergroup=3,
                             simulate=5000 if thorough else 350, depth=40, seed=common.seed())
    for p in progs:
        text = "\n".join(gen.render_program(pal, p) + corpus.TAIL)
        for o in corpus.option_sets(rng, 3 if thorough else 1, pdeps=0.03):
            plan.append(("random", text, o))
    # every way to open and close up to three nested loops (as C02): each opener must meet its own closer
    from harness.c02 import LOOPS
    nests = gen.gen_programs(rep, wd, "loops", LOOPS, 1, 7 if thorough else 6, maxdepth=3, maxpergroup=9)
    nests = [p for p in nests if sum(1 for k in p[0] if "open" in LOOPS[k]) >= 2 and not any(LOOPS[k]["text"] == "B=B+1" for k in p[0])]
    for p in nests:
        plan.append(("loop-nest", "\n".join(gen.render_program(LOOPS, p) + ["90 END"]), dict(base, initialize_vars=bool(len(plan) % 2))))
    # whole bundles (program + runtime procedures), every string size class: the bundled text is output too
    for k, body in enumerate(["10 PLAY \"C\":HDRAW \"U4\":Z$=STRING$(3,\"A\")", "10 INPUT A,B$:PRINT A;B$:Z=INSTR(1,B$,\"A\")+VAL(B$)",
                              "10 HSCREEN 2:HCIRCLE(1,2),3:HLINE(1,2)-(3,4),PSET,BF:HPAINT(1,2),3,4:HPRINT(1,2),\"X\"", "10 HBUFF 1,100:HGET(1,2)-(3,4),1:HPUT(1,2)-(3,4),1,PSET",
                              "10 ON ERR GOTO 20:ON BRK GOTO 20:Z=JOYSTK(0)+BUTTON(1):SOUND 1,2:LOCATE 1,2:ATTR 1,2,B,U\n20 PALETTE 1,2:PALETTE RGB:WIDTH 40:CLS 3:POKE 65497,0"]):
        for sz in (32, 80, 16):
            plan.append(("bundle", body, {"output_dependencies": True, "procname": "prog", "default_str_storage": sz, "add_suffix": k % 2 == 0}))
    res = common.run_real("w_convert", [{"src": s, "opts": o} for _, s, o in plan])
    cases = []
    meta = []
    for (tag, src, o), r in zip(plan, res):
        if "out" not in r:
            rep.count("refused")
            rep.count("refused_" + r.get("exc", "?"))
            continue
        cases.append({"id": len(cases) + 1, "kind": "output", "lines": b09lex.lex_text(r["out"]), "srcvars": srcvars(src)})
        meta.append((tag, src, o, r["out"]))
    # the library text itself: the recogniser must accept working BASIC09 written by hand
    with open(os.path.join(common.REPO, "coco", "resources", "ecb.b09")) as f:
        libtext = f.read()
    cases.append({"id": len(cases) + 1, "kind": "library", "lines": b09lex.lex_text(libtext), "srcvars": []})
    meta.append(("library", "(coco/resources/ecb.b09)", {}, libtext))
    vds = common.judge("Trace_C07", cases, rep, wd, shard=1500)
    ok = []
    for (tag, src, o, out), v, c in zip(meta, vds, cases):
        rep.cov["traces_validated_against_impl"] += 1
        rep.count("family:" + tag.split(":")[0])
        if v["ok"]:
            rep.count("accepted")
            ok.append(c)
            if tag != "library":
                rep.sample({"src": src[:300], "opts": o, "verdict": "well-formed", "statements": v["nstmt"]}, cap=4)
        else:
            rep.count("rejected")
            bad_line = out.split("\n")[v["ln"] - 1] if 0 < v["ln"] <= len(out.split("\n")) else ""
            what = "%s {%s} -> line %d: %s" % (src.replace("\n", " | ")[:300], ",".join("%s=%s" % kv for kv in sorted(o.items())), v["ln"], bad_line.strip())
            rep.bad(("library:" if tag == "library" else "") + v["clause"], what, {"src": src, "opts": o, "out": out, "verdict": v})
    # canaries: remove one structural token from accepted outputs; all must be rejected
    picked = []
    for c in gen.sample(rng, ok[:-1], 200):
        lines = [list(l) for l in c["lines"]]
        cand = [(i, j) for i, l in enumerate(lines) for j, t in enumerate(l)
                if (t["k"] == "id" and t["v"] in ("ENDIF", "ENDLOOP", "ENDEXIT", "THEN", "NEXT", "TO")) or (t["k"] == "op" and t["v"] in (")", ":="))]
        if not cand:
            continue
        i, j = rng.choice(cand)
        del lines[i][j]
        picked.append({"id": len(picked) + 1, "kind": "output", "lines": lines, "srcvars": []})
        if len(picked) >= 40:
            break
    cv = common.judge("Trace_C07", picked, rep, wd)
    rej = sum(1 for v in cv if not v["ok"])
    rep.count("canaries", len(picked))
    rep.count("canaries_rejected", rej)
    if rej < len(picked):
        raise common.MachineryError("canaries: %d of %d mutilated outputs were accepted by the recogniser" % (len(picked) - rej, len(picked)))
    return rep.finish({"exhaustive": False, "statement_forms": len(pal)})


if __name__ == "__main__":
    common.main_wrap(main)
