"""C03 - arrays, DATA/READ, PRINT, INPUT and string functions keep their meaning.

Families (all judged by spec/Trace_Refine.tla on the common machine):
 print   every arrangement of items and separators up to a length bound (spec/GenSeq.tla)
 data    every DATA list over item kinds x READ targets, one or two DATA lines, RESTORE (spec/GenSeq.tla)
 arrays  DIM 1-3 dimensions (decimal / hex bounds), implicit arrays, boundary subscripts (spec/GenProg.tla palette)
 input   INPUT / LINE INPUT with and without prompt, scalar / array / string targets
 strfun  LEFT$ RIGHT$ MID$ LEN ASC CHR$ VAL STR$ INSTR STRING$ for all strings up to length 3 over {A,B}, indices 0..4
 initial variables that occur only in special positions, with pre-initialisation requested
"""
import itertools
import random

from harness import positions
from harness import common, gen, refcheck

PID = "C03"
PR_ITEMS = ["A", "\"X\"", "B$", "7", ";", ",", "-A"]
DT_ITEMS = ["12", "HELLO", "\"A,B\"", "", "1.5", "&HFF", "-3", "X Y ", "\"\"", "DON'T", "P=Q;R", "(IF THEN)", "\"'\""]
DT_KIND = ["n", "s", "s", "e", "n", "n", "n", "s", "s", "s", "s", "s", "s"]


def s_inp(*vals):
    return [gen.text_bytes(v) for v in vals]


def print_programs(rep, wd, thorough):
    items, seps = [0, 1, 2, 3, 6], [4, 5]
    follows = [(a, b) for a in items for b in seps] + [(a, b) for a in seps for b in items] + [(a, b) for a in seps for b in seps]
    # juxtaposition: a quoted string next to anything; a signed item (-A) directly after a string
    follows += [(0, 1), (1, 0), (1, 2), (2, 1), (1, 3), (3, 1), (1, 1), (6, 1), (1, 6)]
    seqs = gen.gen_seqs(rep, wd, "print", 7, items + seps, items + seps, follows, 6 if thorough else 4, maxcount=3)
    out = []
    for s in seqs:
        text = ""
        for k, x in enumerate(s):
            text += PR_ITEMS[x]
        # juxtaposed tokens need no blank: one side is always a quoted string
        out.append((["5 INPUT A,B$", "10 PRINT " + text], "print"))
    for s in seqs[:: (1 if thorough else 7)]:
        out.append((["5 INPUT A,B$", "10 PRINT @3," + "".join(PR_ITEMS[x] for x in s)], "print-at"))
    out.append((["5 INPUT A,B$", "10 PRINT"], "print"))
    out.append((["5 INPUT A,B$", "10 PRINT TAB(3);A"], "print"))
    out.append((["5 INPUT A,B$", "10 ?A;B$"], "print"))
    out.append((["5 INPUT A,B$", "10 PRINT A+1;B$"], "print-expression"))
    out.append((["5 INPUT A,B$", "10 PRINT \"X\";-A"], "print-expression"))
    out.append((["5 INPUT A,B$", "10 PRINT (A),LEN(B$);ABS(A)"], "print-expression"))
    return out


def data_programs(rep, wd, rng, thorough):
    n = len(DT_ITEMS)
    allp = [(a, b) for a in range(n) for b in range(n)]
    seqs = gen.gen_seqs(rep, wd, "data", n, list(range(n)), list(range(n)), allp, 4 if thorough else 3, maxcount=2)
    if not thorough:
        seqs = [s for s in seqs if len(s) <= 2] + gen.sample(rng, [s for s in seqs if len(s) == 3], 220)
    out = []
    for s in seqs:
        # READ targets: matching kinds; an empty item is read once as number, once as string
        for variant in range(2):
            tg = []
            for k, x in enumerate(s):
                kind = DT_KIND[x]
                if kind == "e":
                    kind = "n" if variant == 0 else "s"
                tg.append(["V%d" % k, "C(%d)" % k][k % 2] if kind == "n" else ["V%d$" % k, "C$(%d)" % k][k % 2])
            if variant == 1 and "" not in [DT_ITEMS[x] for x in s]:
                continue
            data = ",".join(DT_ITEMS[x] for x in s)
            lines = ["5 INPUT A,B$", "7 DIM C(9),C$(9)", "10 DATA " + data, "20 READ " + ",".join(tg)]
            out.append((lines, "data"))
            if len(s) <= 1:
                out.append((["5 INPUT A,B$", "10 DATA " + data, "20 READ " + ",".join(tg)], "data-implicit-array"))
            if len(s) >= 2 and variant == 0:
                cut = len(s) // 2
                out.append((["5 INPUT A,B$", "7 DIM C(9),C$(9)", "10 READ " + ",".join(tg), "20 DATA " + ",".join(DT_ITEMS[x] for x in s[:cut]),
                             "30 PRINT \"Z\":DATA " + ",".join(DT_ITEMS[x] for x in s[cut:])], "data-2-lines"))
    out.append((["5 INPUT A,B$", "10 DATA 5,K", "20 READ C(1),C$(2)"], "read-implicit-array"))
    for a, b, c in ((",2", "3", "X,Y,Z"), ("1,,3", "4", "W,X,Y,Z"), ("1", ",2", "X,Y,Z"), (",", "5,6", "W,X,Y,Z"), ("1,2", "3", "X,Y,Z")):
        out.append((["5 INPUT A,B$", "10 DATA " + a, "20 DATA " + b, "30 READ " + c], "data-empty-item-position"))
        out.append((["5 INPUT A,B$", "10 READ " + c, "20 DATA " + a, "30 B=1:DATA " + b], "data-empty-item-position"))
    out.append((["5 INPUT A,B$", "10 DATA 1,2,3", "20 READ X,Y:RESTORE:READ Z,W"], "restore"))
    out.append((["5 INPUT A,B$", "10 DATA 4", "20 READ X:RESTORE", "30 READ Y:RESTORE:READ Z"], "restore"))
    out.append((["5 INPUT A,B$", "10 FOR I=1 TO 3:READ C(I):NEXT", "20 DATA 7,8,9", "30 Z=C(1)+C(3)"], "read-loop"))
    return out


ARR = [
    (["10 DIM C(2)", "20 C(0)=1:C(2)=3:Z=C(0)+C(2)+C(1)"], "dim1"),
    (["10 DIM C(&H2),D$(1)", "20 C(2)=5:D$(1)=\"Q\":Z=C(2):Z$=D$(1)+D$(0)"], "dim-hex"),
    (["10 DIM C(1,2)", "20 C(1,2)=4:C(0,0)=6:Z=C(1,2)+C(0,0)+C(1,0)"], "dim2"),
    (["10 DIM C(1,1,2)", "20 C(1,1,2)=4:C(0,1,0)=6:Z=C(1,1,2)+C(0,1,0)"], "dim3"),
    (["10 DIM C(2),D(2)", "20 C(1)=1:D(1)=2:Z=C(1)*10+D(1)"], "dim-two"),
    (["10 DIM C$(2)", "20 C$(0)=\"A\":C$(2)=\"B\":Z$=C$(0)+C$(1)+C$(2)"], "dim-str"),
    (["10 E(10)=5:E(0)=2:Z=E(10)+E(0)+E(5)"], "implicit1"),
    (["10 E$(10)=\"K\":Z$=E$(10)+E$(3)"], "implicit-str"),
    (["10 E(1,2)=3:Z=E(1,2)+E(0,0)"], "implicit2"),
    (["10 E(1,2,3)=3:Z=E(1,2,3)"], "implicit3"),
    (["10 FOR I=0 TO 10:E(I)=I:NEXT", "20 Z=E(10)+E(0)"], "implicit-loop"),
    (["10 DIM C(3)", "20 FOR I=0 TO 3:C(I)=I+1:NEXT I", "30 Z=C(0)*1000+C(1)*100+C(2)*10+C(3)"], "distinct-cells"),
    (["10 DIM C(1,1)", "20 C(0,1)=1:C(1,0)=2", "30 Z=C(0,1)*10+C(1,0)"], "distinct-cells-2"),
    (["10 DIM C(A)"], "dim-var"),
    (["10 C=1:C(1)=2:C$=\"A\":C$(1)=\"B\"", "20 Z=C*10+C(1):Z$=C$+C$(1)"], "kinds"),
    (["10 DIM C(2)", "20 Z=C(A)"], "subscript-var"),
]
INPUTS = [
    (["10 INPUT X"], "input"), (["10 INPUT \"P\";X"], "input-prompt"), (["10 INPUT \"P\";X,Y$"], "input-2"),
    (["10 LINE INPUT Y$"], "line-input"), (["10 LINE INPUT \"P\";Y$"], "line-input-prompt"),
    (["7 DIM C(3),D$(3)", "10 INPUT C(1),D$(2)"], "input-array"), (["10 INPUT E(2)"], "input-implicit-array"),
    (["10 INPUT X,Y,Z"], "input-3"),
    (["10 INPUT \"READY?\";X"], "input-prompt-ending-in-question-mark"), (["10 INPUT \"?\";Y$"], "input-prompt-ending-in-question-mark"),
    (["10 LINE INPUT \"WHY?\";Y$"], "line-input-prompt"), (["10 INPUT \"A: \";X,Y$"], "input-prompt"), (["10 INPUT \"\";X"], "input-empty-prompt"),
]
STRFUN = [
    ("Z$=LEFT$(S$,N)", "sn"), ("Z$=RIGHT$(S$,N)", "sn"), ("Z$=MID$(S$,P,N)", "spn"), ("Z=LEN(S$)", "s"), ("Z=ASC(S$)", "s"),
    ("Z$=CHR$(N+65)", "n"), ("Z=VAL(S$)", "v"), ("Z$=STR$(N)", "n"), ("Z=INSTR(P,S$,T$)", "pst"), ("Z$=STRING$(N,S$)", "sn"),
    ("Z$=S$+T$", "st"), ("IF S$<T$ THEN Z=1", "st"), ("IF S$=T$ THEN Z=1", "st"), ("IF S$>=T$ THEN Z=1", "st"),
    ("Z$=LEFT$(S$+T$,N)+RIGHT$(T$,1)", "stn"), ("Z=LEN(MID$(S$,P,N))", "spn"), ("Z$=HEX$(N*7)", "n"),
]
STRS = [""] + ["".join(p) for k in (1, 2, 3) for p in itertools.product("AB", repeat=k)]
LONG = [
    (["10 A$=\"{L}\":PRINT A$;LEN(A$)"], "scalar"), (["10 N$(1)=\"{L}\":PRINT N$(1);LEN(N$(1))"], "implicit-array"),
    (["7 DIM M$(2)", "10 M$(2)=\"{L}\":PRINT M$(2)"], "dimensioned-array"), (["7 DIM Q$", "10 Q$=\"{L}\":PRINT Q$"], "dimensioned-scalar"),
    (["10 A$=\"{H}\":B$=A$+A$:PRINT B$:C$(3)=B$+\"!\":PRINT C$(3)"], "concatenation"), (["10 INPUT A$,B$:PRINT A$:PRINT B$"], "input"),
    (["10 LINE INPUT A$:PRINT LEN(A$);A$"], "line-input"), (["10 INPUT N$(2):PRINT N$(2)"], "input-implicit-array"),
    (["10 READ A$,N$(1):PRINT A$:PRINT N$(1)", "20 DATA {L},\"{L}\""], "read"), (["10 A$=\"{L}\":B$=MID$(A$,2,36):PRINT B$;RIGHT$(A$,34)"], "substring"),
    (["10 A$=\"{H}\":PRINT A$+A$:Z$=STR$(LEN(A$+A$))+A$+A$:PRINT Z$"], "temporaries"), (["10 N$(1)=\"{H}\":N$(2)=N$(1)+N$(1):IF N$(2)=N$(1)+N$(1) THEN PRINT \"SAME\""], "compare"),
    (["10 A$=STRING$(40,\"*\"):PRINT A$;LEN(A$)"], "string-function"), (["10 FOR I=1 TO 2:T$(I)=\"{L}\":NEXT:PRINT T$(1);T$(2)"], "loop"),
]
INITIAL = [
    (["10 PRINT A"], "only-print"), (["10 PRINT B$"], "only-print-str"), (["10 Z=LEN(H$)"], "only-in-function-argument"),
    (["10 Z=ABS(Q)"], "only-in-function-argument"), (["10 Z$=LEFT$(H$,Q)"], "only-in-function-argument"),
    (["10 Z=E(3)"], "only-implicit-array"), (["10 Z$=E$(3)+\"X\""], "only-implicit-array"),
    (["10 IF Q=0 THEN Z=1"], "only-condition"), (["10 IF Q=0 THEN Z=1 ELSE Z=2"], "only-condition"),
    (["7 DIM C(3)", "10 Z=C(Q)"], "only-subscript"), (["10 FOR I=Q TO 2:NEXT"], "only-for-bound"),
    (["10 ON Q+1 GOTO 20", "20 Z=1"], "only-on"), (["10 SOUND Q+1,R+1"], "only-device-operand"),
    (["10 Z=INT(Q)"], "only-convertible-argument"), (["10 Z=INSTR(1,H$,\"A\")"], "only-convertible-argument"),
    (["10 HPRINT(1,2),H$"], "only-device-operand"), (["10 PRINT @Q,\"X\""], "only-print-at"),
    (["10 Z=Q+R*S"], "expression"), (["7 DIM A(5)", "10 A(1)=A+1:PRINT A"], "scalar-and-array-of-one-name"),
    (["10 N$(2)=N$+\"X\":PRINT N$"], "scalar-and-array-of-one-name"), (["7 DIM T$(2),U(2)", "10 Z$=T$+\"A\":Z=U*2"], "scalar-and-array-of-one-name"), (["7 DIM C(3)", "10 Z=C(1)"], "dimmed-array-read"),
    (["7 DIM C$(3)", "10 Z$=C$(1)"], "dimmed-array-read"), (["7 DIM C(1,1)", "10 Z=C(1,1)"], "dimmed-array-read"),
    # a variable that some statement assigns, read on a path that has not run that statement
    (["10 IF Q=0 THEN 40", "20 FOR I=1 TO 2:NEXT I", "40 PRINT I"], "assigned-elsewhere:for-variable"),
    (["10 PRINT I:FOR I=1 TO 2:NEXT"], "assigned-elsewhere:for-variable"), (["10 Z=J+1:FOR J=Z TO 2 STEP 1:NEXT J:PRINT J"], "assigned-elsewhere:for-variable"),
    (["10 PRINT K:INPUT K"], "assigned-elsewhere:input-target"), (["10 PRINT K$:LINE INPUT K$"], "assigned-elsewhere:input-target"),
    (["10 PRINT K:READ K", "20 DATA 4"], "assigned-elsewhere:read-target"), (["10 PRINT K;K$:K=1:K$=\"A\""], "assigned-elsewhere:let-target"),
    (["10 GOTO 30", "20 K=5", "30 PRINT K"], "assigned-elsewhere:let-target"), (["10 IF Q=1 THEN K=5 ELSE PRINT K"], "assigned-elsewhere:let-target"),
    (["10 Z=VARPTR(Q)"], "only-varptr"), (["10 PLAY H$"], "only-device-operand"), (["10 WIDTH Q+32"], "only-device-operand"),
]


def mutate(case, rng):
    """canary: change a numeric literal or a separator in the emitted text"""
    out = [list(l) for l in case["out"]]
    cand = [(ln, i) for ln, toks in enumerate(out) for i, t in enumerate(toks)
            if (t["k"] in ("real", "int") and i > 0 and not (i == 0)) or (t["k"] == "op" and t["v"] in (";", ",") and toks[0]["v"] != "RUN" and any(x["v"] == "PRINT" for x in toks))]
    cand = [(ln, i) for ln, i in cand if not (i == 0 and out[ln][i]["k"] == "int")]
    if not cand:
        return None
    ln, i = rng.choice(cand)
    t = dict(out[ln][i])
    if t["k"] in ("real", "int"):
        t["n"] = t["n"] + t["d"]
    else:
        t["v"] = "," if t["v"] == ";" else ";"
    out[ln][i] = t
    c2 = dict(case)
    c2["out"] = out
    return c2


def main():
    rep = common.Report(PID)
    T = common.tier()
    rng = random.Random(common.seed())
    wd = common.workdir(PID)
    thorough = T == "thorough"
    plan = []

    def add(lines, tag, opts, scripts, fuel=150):
        plan.append({"lines": lines, "opts": opts, "scripts": scripts, "fuel": fuel, "tag": tag})
    base = {"add_standard_prefix": False}
    two = [{"inp": s_inp("3", "K"), "dev": []}, {"inp": s_inp("-1", ""), "dev": []}]
    for lines, tag in print_programs(rep, wd, thorough):
        add(lines, tag, dict(base), two)
    for lines, tag in data_programs(rep, wd, rng, thorough):
        for opts in ([dict(base), dict(base, initialize_vars=True)] if thorough else [dict(base, initialize_vars=bool(len(plan) % 2))]):
            add(lines, tag, opts, two)
    for lines, tag in ARR:
        for init in (False, True):
            for sz in (32, 80):
                add(["5 INPUT A,B$"] + lines, "array:" + tag, dict(base, initialize_vars=init, default_str_storage=sz),
                    [{"inp": s_inp(a, "K"), "dev": []} for a in ("0", "1", "2")])
    insc = [{"inp": s_inp("3", "K", "5", "AB", "7", ""), "dev": []}, {"inp": s_inp("0", "", "-2", "X", "1", "Q"), "dev": []}]
    for lines, tag in INPUTS:
        for init in (False, True):
            add(["5 INPUT A,B$"] + lines, "input:" + tag, dict(base, initialize_vars=init), insc)
    # string functions: few programs, many scripts (all strings up to length 3 over {A,B}, indices 0..4)
    for stmt, shape in STRFUN:
        sc = []
        for s in STRS:
            for t in (STRS if ("t" in shape) else [""]):
                if "t" in shape and not thorough and len(s) + len(t) > 4:
                    continue
                for n in (range(5) if "n" in shape else [1]):
                    for p in (range(5) if "p" in shape else [1]):
                        if shape == "v":
                            continue
                        sc.append({"inp": s_inp(s, t, str(n), str(p)), "dev": []})
        if shape == "v":
            sc = [{"inp": s_inp(v, "", "1", "1"), "dev": []} for v in ("", "12", "1.5", "-3", "A", "2B", " 7", "+4", ".5", "0")]
        for sz in (32, 80):
            for chunk in range(0, len(sc), 120):
                add(["5 INPUT S$,T$,N,P", "10 " + stmt], "strfun", dict(base, default_str_storage=sz), sc[chunk:chunk + 120], fuel=60)
    # pre-initialisation requested: no read of an unassigned variable may remain
    for lines, tag in INITIAL:
        for sz in (32, 80):
            add(lines + ["90 END"], "initial:" + tag, {"initialize_vars": True, "default_str_storage": sz},
                [{"inp": s_inp("1", "2", "3"), "dev": [1, 2]}])
    # a variable that occurs nowhere else, in every expression position, with pre-initialisation requested
    for nm, lines in positions.NUM_POSITIONS:
        if nm in ("elseif-condition", "elseif-arm"):      # the ELSE IF chain without ELSE spins (C02's recorded finding)
            continue
        for fill in ("W", "W(2)"):
            body = positions.fill(lines, "{n}", fill)
            add(["7 DIM C(9),D(2,9)"] + body + ([] if any(l.startswith("90 ") for l in body) else ["90 END"]), "initial:position:" + nm,
                {"initialize_vars": True}, [{"inp": s_inp("1", "2", "3"), "dev": [1, 2, 0, 3]}])
    for nm, lines in positions.STR_POSITIONS:
        if nm == "elseif-condition":
            continue
        for fill in ("W$", "W$(2)"):
            if "INPUT" in lines[0] and "(" in fill:
                continue
            body = positions.fill(lines, "{s}", fill)
            add(["7 DIM C(9),D(2,9)"] + body + ["90 END"], "initial:position:" + nm, {"initialize_vars": True, "default_str_storage": 80},
                [{"inp": s_inp("1", "2", "3"), "dev": [1, 2, 0, 3]}])
    # strings longer than BASIC09's 32 bytes with a requested size they fit: every string variable, element and temporary
    # must have been given that size (BASIC09 cuts a string to the declared size of what it is stored in)
    L = "ABCDEFGHIJKLMNOPQRSTUVWXYZ0123456789ABCD"
    for lines, tag in LONG:
        for init in (False, True):
            plan.append({"lines": [l.replace("{L}", L).replace("{H}", L[:20]) for l in lines] + ["90 END"], "tag": "long:" + tag, "cut": True, "fuel": 150,
                         "opts": dict(base, initialize_vars=init, default_str_storage=80), "scripts": [{"inp": s_inp(L, L[:35]), "dev": []}]})
    cases, vds = refcheck.run(rep, wd, plan)
    for c in cases:
        rep.count("family:" + c["tag"].split(":")[0])
    ok = refcheck.tally(rep, cases, vds)
    picked, cv, rejected = refcheck.canaries(rep, rng, ok, wd, mutate, need=30)
    o = {"add_standard_prefix": False}
    refcheck.fixed_canaries(rep, wd, [
        (["5 INPUT A,B$", "10 PRINT A;B$"], o, two, "; B$", ", B$"),
        (["5 INPUT A,B$", "10 PRINT A;B$;"], o, two, "B$;", "B$"),
        (["5 INPUT A,B$", "10 PRINT B$"], o, two, "PRINT B$", "PRINT B$; B$"),
        (["5 INPUT A,B$", "10 DATA 1,2", "20 READ X,Y"], o, two, "1.0, 2.0", "2.0, 1.0"),
        (["5 INPUT A,B$", "10 DATA 1,2", "20 READ X:RESTORE:READ Y"], o, two, "RESTORE", "REM"),
        (["5 INPUT A,B$", "10 DIM C(2)", "20 C(2)=5"], o, two, "arr_C(3)", "arr_C(2)"),
        (["5 INPUT A,B$", "10 DIM C(1,2)", "20 C(1,2)=5:C(0,1)=6"], o, two, "arr_C(2, 3)", "arr_C(3, 2)"),
        (["5 INPUT A,B$", "10 E(10)=5"], o, two, "arr_E(11)", "arr_E(10)"),
        (["5 INPUT A,B$", "10 INPUT \"P\";X"], o, insc, "P? ", "P"),
        (["5 INPUT A,B$", "10 LINE INPUT \"P\";Y$"], o, insc, "\"P\"", "\"P? \""),
        (["5 INPUT A,B$", "10 Z$=LEFT$(\"ABC\",1)"], o, two, "LEFT$", "RIGHT$"),
        (["5 INPUT A,B$", "10 Z$=MID$(\"ABC\",2,1)"], o, two, "2.0, 1.0", "1.0, 2.0"),
        (["10 Z=Q+1", "90 END"], {"initialize_vars": True}, [{"inp": [], "dev": []}], "Q := 0.0", "REM"),
        (["10 N$(1)=\"ABCDEFGHIJKLMNOPQRSTUVWXYZ0123456789ABCD\":PRINT N$(1)"], {"add_standard_prefix": False, "default_str_storage": 80}, two, "DIM arr_N$(11): STRING[80]", "DIM arr_N$(11)"),
        (["10 A$=\"ABCDEFGHIJKLMNOPQRSTUVWXYZ0123456789ABCD\":PRINT A$"], {"add_standard_prefix": False, "default_str_storage": 80}, two, "DIM A$:STRING[80]", "DIM A$:STRING[39]"),
    ])
    return rep.finish({"exhaustive": False, "bounds": {"print_list_len": 6 if thorough else 4, "data_items": 4 if thorough else 3,
                                                       "string_len": 3, "indices": "0..4"}})


if __name__ == "__main__":
    common.main_wrap(main)
