"""C18 - decoder output is a complete image file of the advertised size.

spec/DimsGen.tla enumerates the size options (width x height x skip) of hrstoppm and maxtoppm; well-formed inputs of
exactly the implied length are decoded by the real tools (all nine MAX pixel modes, Newsroom header, every PIX size, the
fixed-size formats in all header variants).  spec/Trace_C18.tla states the size each format / option dictates and accepts
a run iff the header announces it and exactly width x height samples follow; skip-N and stdin/stdout runs must give
the same bytes.
"""
import base64
import hashlib
import os
import random

from harness import common, gen, imgfmt

PID = "C18"


def dims(rep, wd, name, widths, heights, skips):
    cfg = os.path.join(wd, "dims_%s.cfg" % name)
    with open(cfg, "w") as f:
        f.write("CONSTANTS\n  Widths = {%s}\n  Heights = {%s}\n  Skips = {%s}\nINIT Init\nNEXT Next\nINVARIANT InRange\nCHECK_DEADLOCK FALSE\n" % (
            ", ".join(map(str, widths)), ", ".join(map(str, heights)), ", ".join(map(str, skips))))
    r = rep.tlc(common.run_tlc("DimsGen", cfg=cfg, wd=wd))
    return sorted({(common.tlaval(st["w"]), common.tlaval(st["h"]), common.tlaval(st["skip"])) for st in r.states})


def pattern(n, k=7):
    return bytes((k * i + 3) % 256 for i in range(n))


def sha(b):
    return hashlib.sha1(b).hexdigest() if b is not None else "none"


def main():
    rep = common.Report(PID)
    T = common.tier()
    rng = random.Random(common.seed())
    wd = common.workdir(PID)
    thorough = T == "thorough"
    jobs = []      # dict(tool,args,data, case fields, io=bool, skipdata)
    widths = list(range(1, 25)) + [32, 64, 100, 320, 640]
    hrs = dims(rep, wd, "hrs", widths, [0, 1, 2, 3, 8], [0, 1, 7, 20])
    if not thorough:
        hrs = [d for d in hrs if d[0] <= 24 and d[1] in (0, 2) and d[2] in (0, 7)] + gen.sample(rng, hrs, 60)
    for w, h, sk in hrs:
        hh = h or 192
        data = pattern(sk, 5) + bytes((4 * i) % 64 for i in range(16)) + pattern(((w + 1) // 2) * hh)
        args = ["-w", str(w)] + (["-r", str(h)] if h else []) + (["-s", str(sk)] if sk else [])
        jobs.append({"tool": "hrstoppm", "args": args, "data": data, "fmt": "HRS", "w": w, "h": hh, "skip": sk, "what": " ".join(args),
                     "noskip": (["-w", str(w)] + (["-r", str(h)] if h else []), data[sk:]) if sk else None, "io": w in (2, 5, 320)})
    mx = dims(rep, wd, "max", widths, [0, 1, 3, 8], [0, 3, 20])
    if not thorough:
        mx = [d for d in mx if d[0] <= 24 and d[1] in (0, 3) and d[2] in (0, 3)] + gen.sample(rng, mx, 60)
    for n, (w, h, sk) in enumerate(mx):
        if h == 0 and w % 8:
            continue                       # the header's length field cannot describe such a picture
        rows = h or 5
        size = ((w + 7) // 8) * rows
        mode = imgfmt.MAXMODES[n % 9]
        data = pattern(sk, 5) + bytes([0, size // 256, size % 256, 0, 0]) + pattern(size, 11)
        args = ["-w", str(w)] + (["-r", str(h)] if h else []) + (["-s", str(sk)] if sk else []) + ([] if mode == "bw" else ["-" + mode])
        jobs.append({"tool": "maxtoppm", "args": args, "data": data, "fmt": "MAX", "w": w, "h": h, "skip": sk, "hdrsize": size, "what": " ".join(args),
                     "noskip": ([a for a in args if a not in ("-s", str(sk))] if False else (["-w", str(w)] + (["-r", str(h)] if h else []) + ([] if mode == "bw" else ["-" + mode])), data[sk:]) if sk else None,
                     "io": w in (8, 16, 256)})
    for b0, b1 in ((1, 1), (5, 30), (32, 192), (255, 2), (2, 255)):
        data = bytes([b0, b1]) + pattern(b0 * b1, 13)
        jobs.append({"tool": "maxtoppm", "args": ["-newsroom"], "data": data, "fmt": "MAX", "w": 0, "h": 0, "skip": 0, "newsroom": True, "hdr0": b0, "hdr1": b1,
                     "what": "-newsroom %dx%d" % (b0 * 8, b1), "noskip": None, "io": b0 == 5})
    # -newsroom together with -s: the two options are independent (the preamble is skipped, then the two-byte header is read)
    for b0, b1, sk in ((5, 30, 7), (2, 3, 1), (32, 20, 128)):
        data = pattern(sk, 5) + bytes([b0, b1]) + pattern(b0 * b1, 13)
        jobs.append({"tool": "maxtoppm", "args": ["-newsroom", "-s", str(sk)], "data": data, "fmt": "MAX", "w": 0, "h": 0, "skip": sk, "newsroom": True, "hdr0": b0, "hdr1": b1,
                     "what": "-newsroom -s %d %dx%d" % (sk, b0 * 8, b1), "noskip": (["-newsroom"], data[sk:]), "io": b0 == 5})
    for side in (range(2, 130, 2) if thorough else list(range(2, 34, 2)) + [64, 100, 128]):
        data = pattern(side * side // 2, 3)
        jobs.append({"tool": "pixtopgm", "args": [], "data": data, "fmt": "PIX", "w": side, "h": side, "skip": 0, "what": "side %d" % side, "noskip": None, "io": side in (2, 64)})
    # fixed-size formats, one generated file per header variant
    for v in imgfmt.variants_compressed()[:1] + imgfmt.variants_compressed()[3:] + [x for x in imgfmt.variants_uncompressed() if x[0] in ("mge-raw", "mge-raw-flag1", "mge-raw-flag127", "mge-raw-flag128", "vef-raw-0", "vef-raw-1", "vef-raw-3")] \
            + imgfmt.variants_cm3_raw() + imgfmt.variants_line_compressed():
        for f in imgfmt.generate(rep, wd, v, 1, common.seed()):
            jobs.append({"tool": f["tool"], "args": f["args"], "data": f["data"], "fmt": f["fields"]["fmt"], "w": f["fields"]["w"], "h": f["fields"]["h"], "skip": 0,
                         "veftype": f["fields"].get("veftype", 0), "what": f["variant"], "noskip": None, "io": f["tool"] != "veftopng"})
    files = [{"tool": j["tool"], "args": j["args"], "data": j["data"]} for j in jobs]
    res = imgfmt.decode(files)
    # relations: skip and the I/O square
    extra, owner = [], []
    for k, j in enumerate(jobs):
        if j["noskip"]:
            extra.append(({"tool": j["tool"], "args": j["noskip"][0], "data": j["noskip"][1]}, "file", "file"))
            owner.append((k, "skip"))
        if j["io"]:
            for im, om in (("file", "stdout"), ("stdin", "stdout")):
                if j["tool"] == "pixtopgm" and im == "stdin":
                    continue
                extra.append(({"tool": j["tool"], "args": j["args"], "data": j["data"]}, im, om))
                owner.append((k, im + "-" + om))
    eres = []
    for mode in (("file", "file"), ("file", "stdout"), ("stdin", "stdout")):
        sel = [(i, e) for i, e in enumerate(extra) if (e[1], e[2]) == mode]
        if sel:
            rr = imgfmt.decode([e[0] for _, e in sel], inmode=mode[0], outmode=mode[1])
            eres += list(zip([i for i, _ in sel], rr))
    eres = dict(eres)
    cases = []
    for k, (j, r) in enumerate(zip(jobs, res)):
        g = imgfmt.got_of(r)
        out = base64.b64decode(r["out"]) if r["out"] else None
        c = {"id": k + 1, "fmt": j["fmt"], "w": j["w"], "h": j["h"], "skip": j["skip"], "newsroom": bool(j.get("newsroom")), "hdr0": j.get("hdr0", 0), "hdr1": j.get("hdr1", 0),
             "hdrsize": j.get("hdrsize", 0), "filelen": len(j["data"]), "veftype": j.get("veftype", 0), "what": j["what"],
             "got": {"status": g["status"], "w": g["w"], "h": g["h"], "nsamples": g["nsamples"], "hash": sha(out)}, "skiphash": "", "io": []}
        cases.append(c)
    for i, (k, how) in enumerate(owner):
        r = eres[i]
        out = base64.b64decode(r["out"]) if r["out"] else None
        if how == "skip":
            cases[k]["skiphash"] = sha(out)
        else:
            cases[k]["io"].append({"how": how, "hash": sha(out), "status": r["status"]})
    vds = common.judge("Trace_C18", cases, rep, wd)
    for j, c, v in zip(jobs, cases, vds):
        rep.cov["traces_validated_against_impl"] += 1 + len(c["io"]) + (1 if c["skiphash"] else 0)
        rep.count("format:" + c["fmt"])
        if v["ok"]:
            rep.count("accepted")
            rep.sample({"tool": j["tool"], "args": j["args"], "input_bytes": len(j["data"]), "header": [c["got"]["w"], c["got"]["h"]], "samples": c["got"]["nsamples"],
                        "io_runs": len(c["io"])}, cap=6)
        else:
            rep.count("rejected")
            rep.bad(v["key"], "%s %s (%d input bytes): %s" % (j["tool"], j["what"], len(j["data"]), v["detail"]),
                    {"tool": j["tool"], "args": j["args"], "data_b64": base64.b64encode(j["data"]).decode(), "verdict": v})
    # gating canaries
    good = next(c for c, v in zip(cases, vds) if v["ok"] and c["fmt"] == "HRS")
    can = [dict(good, got=dict(good["got"], nsamples=good["got"]["nsamples"] - 3)), dict(good, got=dict(good["got"], w=good["got"]["w"] + 1)),
           dict(good, skiphash="0" * 40), dict(good, io=[{"how": "stdin-stdout", "hash": "1" * 40, "status": "ok"}])]
    cv = common.judge("Trace_C18", can, rep, wd)
    if any(v["ok"] for v in cv):
        raise common.MachineryError("canary accepted: %r" % [v for v in cv if v["ok"]])
    rep.count("canaries", len(can))
    return rep.finish({"exhaustive": thorough})


if __name__ == "__main__":
    common.main_wrap(main)
