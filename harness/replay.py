"""./check <ID> --replay <path>: re-run the real code on the input recorded in a violation file.

Exit 1 if the real code still produces the recorded output (the violation reproduces), 0 if the output changed
(then run the check itself), 2 if the file cannot be replayed.  The judgement belongs to the check (TLC); the replay
only shows that the recorded input still leads to the recorded output.
"""
import base64
import hashlib
import json
import sys

from harness import common


def parse_opts(o):
    if isinstance(o, dict):
        return {k: v for k, v in o.items() if k in ("filter_unused_linenum", "initialize_vars", "default_width32", "output_dependencies",
                                                    "add_standard_prefix", "add_suffix", "default_str_storage", "procname")}
    out = {}
    for kv in str(o or "").split(","):
        if "=" in kv:
            k, v = kv.split("=", 1)
            out[k.strip()] = True if v == "True" else False if v == "False" else int(v) if v.lstrip("-").isdigit() else v
    return out


def main(path):
    with open(path) as f:
        d = json.load(f)
    case = d.get("case", {})
    print("property %s  key %s" % (d.get("property"), d.get("key")))
    print(d.get("what", "")[:1500])
    if isinstance(case, dict) and "src" in case:
        opts = parse_opts(case.get("opts"))
        r = common.run_real("w_convert", [{"src": case["src"], "opts": opts}], shards=1)[0]
        now = r.get("out", "%s: %s" % (r.get("exc"), r.get("msg")))
        print("--- output now ---\n%s" % now)
        if "out" in case and case["out"] == now:
            print("the recorded output is reproduced")
            return 1
        print("the output differs from the recorded one (or none was recorded): run the check")
        return 0 if "out" in case else 1
    if isinstance(case, dict) and "data_b64" in case and "tool" in case:
        from harness import imgfmt
        data = base64.b64decode(case["data_b64"])
        res = imgfmt.decode([{"tool": case["tool"], "args": case.get("args", []), "data": data}])[0]
        out = base64.b64decode(res["out"]) if res.get("out") else b""
        h = hashlib.sha1(out).hexdigest()
        print("status now: %s, %d output bytes, sha1 %s" % (res["status"], len(out), h))
        if case.get("out_sha") in (None, h):
            print("the recorded observation is reproduced" if case.get("out_sha") else "no output hash recorded: compare the status above")
            return 1
        print("the output differs from the recorded one: run the check")
        return 0
    print("this record holds no re-executable input; it documents the violation as observed")
    return 1


if __name__ == "__main__":
    sys.exit(main(sys.argv[1]))
