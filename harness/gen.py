"""Run the TLA+ generator machines and render their behaviours to Color BASIC text."""
import os
import random

from harness import common, decblex, b09lex

DEFAULTS = {
    "Grammar": '"num"', "MaxOps": "2", "MaxLen": "12",
    "NumLeaves": '{"A", "B", "2"}', "StrLeaves": "{}",
    "Arith": '{"+", "-", "*", "/", "^"}', "Logic": '{"AND", "OR"}', "RelOps": "{}",
    "NumFun1": '{"ABS", "INT"}', "StrToNum": "{}", "NumToStr": "{}", "Str2": "{}", "Str3": "{}",
    "WithInstr": "FALSE", "WithStringS": "FALSE", "WithInkey": "FALSE",
    "WithNot": "TRUE", "WithNeg": "TRUE", "WithParen": "TRUE",
}


def tlaset(xs):
    return "{" + ", ".join('"%s"' % x for x in xs) + "}"


def gen_exprs(rep, wd, name, simulate=None, **over):
    """Enumerate (or sample) the finished token sequences of spec/GenExpr.tla under the given constants."""
    c = dict(DEFAULTS)
    c.update(over)
    cfg = os.path.join(wd, "GenExpr_%s.cfg" % name)
    with open(cfg, "w") as f:
        f.write("CONSTANTS\n")
        for k, v in c.items():
            f.write("  %s = %s\n" % (k, v))
        f.write("SPECIFICATION Spec\nINVARIANT TypeOK\nINVARIANT Balanced\nCHECK_DEADLOCK FALSE\n")
    r = rep.tlc(common.run_tlc("GenExpr", cfg=cfg, wd=wd))
    g = c["Grammar"].strip('"')
    donemodes = {"num": ('"No"',), "str": ('"So"',), "cond": ('"Ro"', '"SRo"')}[g]
    out = []
    for st in r.states:
        if st.get("fr") == "<<>>" and st.get("mode") in donemodes:
            out.append(common.tlaval(st["toks"]))
    out.sort(key=lambda t: (len(t), t))
    return out


def render(toks):
    """token sequence -> source text with single blanks (the layout dimension is property C08's)"""
    s = " ".join(('"%s"' % t[2:]) if t.startswith("S:") else t for t in toks)
    return s.replace("( ", "(").replace(" )", ")").replace(" ,", ",")


def program_case(cid, lines, opts, scripts, fuel, result, extra=None):
    """Bundle one source program and the real output for a Trace_* module."""
    text = "\n".join(lines)
    case = {"id": cid, "srctext": text, "src": decblex.lex_program(text), "init": bool(opts.get("initialize_vars")),
            "fuel": fuel, "scripts": scripts, "outtext": result.get("out", ""),
            "out": b09lex.lex_nonblank(result["out"]) if "out" in result else []}
    if extra:
        case.update(extra)
    return case


def text_bytes(x):
    return list(str(x).encode("latin-1"))


def sample(rng, xs, n):
    xs = list(xs)
    if len(xs) <= n:
        return xs
    return rng.sample(xs, n)
