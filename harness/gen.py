"""Run the TLA+ generator machines and render their behaviours to Color BASIC text."""
import os
import random

from harness import common, decblex, b09lex

DEFAULTS = {
    "Grammar": '"num"', "MaxOps": "2", "MaxLen": "12",
    "NumLeaves": '{"A", "B", "2"}', "StrLeaves": "{}",
    "Arith": '{"+", "-", "*", "/", "^"}', "Logic": '{"AND", "OR"}', "RelOps": "{}",
    "NumFun1": '{"ABS", "INT"}', "StrToNum": "{}", "NumToStr": "{}", "Str2": "{}", "Str3": "{}",
    "WithInstr": "FALSE", "WithStringS": "FALSE", "WithInkey": "FALSE",
    "WithNot": "TRUE", "WithNeg": "TRUE", "WithParen": "TRUE",
}


def tlaset(xs):
    return "{" + ", ".join('"%s"' % x for x in xs) + "}"


def gen_exprs(rep, wd, name, simulate=None, **over):
    """Enumerate (or sample) the finished token sequences of spec/GenExpr.tla under the given constants."""
    c = dict(DEFAULTS)
    c.update(over)
    cfg = os.path.join(wd, "GenExpr_%s.cfg" % name)
    with open(cfg, "w") as f:
        f.write("CONSTANTS\n")
        for k, v in c.items():
            f.write("  %s = %s\n" % (k, v))
        f.write("SPECIFICATION Spec\nINVARIANT TypeOK\nINVARIANT Balanced\nCHECK_DEADLOCK FALSE\n")
    r = rep.tlc(common.run_tlc("GenExpr", cfg=cfg, wd=wd))
    g = c["Grammar"].strip('"')
    donemodes = {"num": ('"No"',), "str": ('"So"',), "cond": ('"Ro"', '"SRo"')}[g]
    out = []
    for st in r.states:
        if st.get("fr") == "<<>>" and st.get("mode") in donemodes:
            out.append(common.tlaval(st["toks"]))
    out.sort(key=lambda t: (len(t), t))
    return out


def render(toks):
    """token sequence -> source text with single blanks (the layout dimension is property C08's)"""
    s = " ".join(('"%s"' % t[2:]) if t.startswith("S:") else t for t in toks)
    return s.replace("( ", "(").replace(" )", ")").replace(" ,", ",")


def program_case(cid, lines, opts, scripts, fuel, result, extra=None):
    """Bundle one source program and the real output for a Trace_* module."""
    text = "\n".join(lines)
    case = {"id": cid, "srctext": text, "src": decblex.lex_program(text), "init": bool(opts.get("initialize_vars")),
            "fuel": fuel, "scripts": scripts, "outtext": result.get("out", ""),
            "out": b09lex.lex_nonblank(result["out"]) if "out" in result else []}
    if extra:
        case.update(extra)
    return case


def text_bytes(x):
    return list(str(x).encode("latin-1"))


def sample(rng, xs, n):
    xs = list(xs)
    if len(xs) <= n:
        return xs
    return rng.sample(xs, n)


def gen_programs(rep, wd, name, palette, nlines, maxstmts, maxdepth=2, maxpergroup=2, simulate=0, depth=40, seed=0):
    """Enumerate (simulate=0) or sample the behaviours of spec/GenProg.tla for a statement palette.
    palette: [{"text":..., "open":[..], "close":[..], "last":bool, "grp":int}]; returns lists of lines of palette indices (0-based)."""
    import json
    import re
    pal = os.path.join(wd, "palette_%s.json" % name)
    with open(pal, "w") as f:
        json.dump([{"open": p.get("open", []), "close": p.get("close", []), "last": bool(p.get("last", False)),
                    "grp": int(p.get("grp", 0))} for p in palette], f)
    cfg = os.path.join(wd, "GenProg_%s.cfg" % name)
    with open(cfg, "w") as f:
        f.write("CONSTANTS\n  NLines = %d\n  MaxStmts = %d\n  MaxDepth = %d\n  MaxPerGroup = %d\n" % (nlines, maxstmts, maxdepth, maxpergroup))
        f.write("SPECIFICATION Spec\nINVARIANT NestedOK\nINVARIANT DoneBalanced\n")
        if simulate:
            f.write("INVARIANT Emit\n")
        f.write("CHECK_DEADLOCK FALSE\n")
    out = []
    if simulate:
        r = common.run_tlc("GenProg", cfg=cfg, wd=wd, env={"PALETTE": pal}, dump=False, workers=4,
                           simulate="num=%d" % simulate, extra=["-depth", str(depth), "-seed", str(seed + 1)])
        rep.cov["states"] += max(r.distinct, r.generated)
        rep.cov["transitions"] += r.generated
        seen = set()
        for m in re.finditer(r'"GEN:(\[.*?\])"', r.out):
            s = m.group(1)
            if s not in seen:
                seen.add(s)
                out.append([[k - 1 for k in line] for line in json.loads(s)])
    else:
        r = rep.tlc(common.run_tlc("GenProg", cfg=cfg, wd=wd, env={"PALETTE": pal}))
        for st in r.states:
            if st.get("done") == "TRUE":
                out.append([[k - 1 for k in line] for line in common.tlaval(st["lines"])])
        out.sort()
    return out


def render_program(palette, lines, first=10, step=10):
    return ["%d %s" % (first + step * i, ":".join(palette[k]["text"] for k in ln)) for i, ln in enumerate(lines)]


def gen_seqs(rep, wd, name, n, start, final, follows, maxlen, maxcount=9):
    """All sequences of spec/GenSeq.tla (symbols 0..n-1 on the Python side)."""
    import json
    spec = os.path.join(wd, "seqspec_%s.json" % name)
    with open(spec, "w") as f:
        json.dump({"n": n, "start": [x + 1 for x in start], "final": [x + 1 for x in final],
                   "follows": [[a + 1, b + 1] for a, b in follows], "maxlen": maxlen, "maxcount": maxcount}, f)
    cfg = os.path.join(wd, "GenSeq_%s.cfg" % name)
    with open(cfg, "w") as f:
        f.write("SPECIFICATION Spec\nINVARIANT WellFormed\nCHECK_DEADLOCK FALSE\n")
    r = rep.tlc(common.run_tlc("GenSeq", cfg=cfg, wd=wd, env={"SEQSPEC": spec}))
    out = []
    for st in r.states:
        if st.get("done") == "TRUE":
            out.append([x - 1 for x in common.tlaval(st["seq"])])
    out.sort(key=lambda s: (len(s), s))
    return out
