"""C17 - compression is transparent: any valid encoding decodes to the original image.

The nondeterministic reference encoders are the machines of spec/ImgGen.tla (RAT escape coding, MGE run-length) and
spec/LineGen.tla (CM3 lines coded against the left byte and the line above across pages, squashed VEF records):
(M) at toy size TLC checks for every behaviour that decoding gives back the abstract image; (G) at real size behaviours
are sampled (-simulate) with boundary run lengths, literals equal to the escape byte, copies at column 0, runs crossing
lines / records / pages; (V) spec/Trace_Img.tla compares the real decoder's pixels with the abstract image's picture.
"""
from harness import common, imgfmt
from harness.c16 import run, canaries

PID = "C17"


def main():
    thorough = common.tier() == "thorough"
    rep, files, cases, vds, wd = run(PID, imgfmt.variants_compressed() + imgfmt.variants_line_compressed(), 60 if thorough else 5)
    canaries(rep, cases, vds, wd)
    return rep.finish({"exhaustive": False, "formats": "RAT, MGE run-length, CM3 coded lines (1/2 pages), squashed VEF 0/1/3"})


if __name__ == "__main__":
    common.main_wrap(main)
