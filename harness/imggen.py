"""Run the encoder machines of spec/ImgGen.tla (and friends) in simulation mode and collect the generated files."""
import os
import re

from harness import common


def parse_gen(out):
    """Extract every  <<"GEN", ...>>  value printed by TLC (may span several lines)."""
    vals = []
    pos = 0
    while True:
        i = out.find('<<"GEN"', pos)
        if i < 0:
            i = out.find('<< "GEN"', pos)
            if i < 0:
                break
        depth = 0
        j = i
        while j < len(out):
            if out.startswith("<<", j):
                depth += 1
                j += 2
                continue
            if out.startswith(">>", j):
                depth -= 1
                j += 2
                if depth == 0:
                    break
                continue
            j += 1
        vals.append(common.tlaval(out[i:j]))
        pos = j
    return vals


def expand(runs):
    b = bytearray()
    for v, n in runs:
        b += bytes([v]) * n
    return bytes(b)


def simulate(rep, wd, name, module, consts, num, depth, seed, invariants=("RoundTripOff",), workers=4):
    cfg = os.path.join(wd, "%s_%s.cfg" % (module, name))
    with open(cfg, "w") as f:
        f.write("CONSTANTS\n")
        for k, v in consts.items():
            f.write("  %s = %s\n" % (k, v))
        f.write("SPECIFICATION Spec\nINVARIANT EmitDone\nINVARIANT Complete\nCHECK_DEADLOCK FALSE\n")
    r = common.run_tlc(module, cfg=cfg, wd=wd, dump=False, workers=workers, simulate="num=%d" % num,
                       extra=["-depth", str(depth), "-seed", str(seed + 7)], timeout=1800)
    if "Error:" in r.out and "EmitDone" not in r.out:
        raise common.MachineryError("%s simulation failed:\n%s" % (module, r.out[-2000:]))
    rep.cov["states"] += r.generated
    rep.cov["transitions"] += r.generated
    gens = parse_gen(r.out)
    seen = set()
    out = []
    for g in gens:
        k = repr(g)
        if k not in seen:
            seen.add(k)
            out.append(g)
    return out
