"""Statement corpus: one or more concrete spellings of every statement form the translator's grammar accepts.

Used as a GenProg palette (C07, C08, C11, C12, C15) and for coverage accounting.  Jump targets refer to the fixed
tail lines (900, 910 subroutine) every assembled program gets.
"""
import re

from harness.c04 import FORMS as DEVICE_FORMS, instantiate, nslots

I, J, K = 1, 2, 3

CONTROL = [
    {"text": "GOTO 900", "last": True, "grp": 4}, {"text": "GOSUB 910", "grp": 4},
    {"text": "ON A GOTO 900,900", "grp": 4}, {"text": "ON A+1 GOSUB 910,920", "grp": 4},
    {"text": "IF A=1 THEN 900", "last": True, "grp": 1},
    {"text": "IF A=1 THEN B=1", "last": True, "grp": 1},
    {"text": "IF A THEN B=1:C=2", "last": True, "grp": 1},
    {"text": "IF NOT A=1 AND B<2 OR C=3 THEN B=1 ELSE B=2", "last": True, "grp": 1},
    {"text": "IF A$=\"X\" THEN 900 ELSE B=2", "last": True, "grp": 1},
    {"text": "IF (A=1) THEN B=1 ELSE 900", "last": True, "grp": 1},
    {"text": "IF A=1 THEN B=1 ELSE IF A=2 THEN B=2", "last": True, "grp": 2},
    {"text": "IF A=1 THEN B=1 ELSE IF A=2 THEN B=2 ELSE B=3", "last": True, "grp": 2},
    {"text": "IF A<2 THEN IF A=1 THEN B=1 ELSE B=2", "last": True, "grp": 2},
    {"text": "IF A=3 THEN FOR K=1 TO 2:C=C+K:NEXT K", "last": True, "grp": 2},
    {"text": "IF INT(A)=1 THEN PRINT \"Y\"", "last": True, "grp": 2},
    {"text": "IF A=>1 THEN B=1 ELSE IF A=<2 THEN B=2 ELSE IF A<>3 THEN B=3", "last": True, "grp": 2},
    {"text": "IF A$=>\"M\" THEN 900", "last": True, "grp": 1},
    {"text": "FOR I=1 TO 2", "open": [I], "grp": 3}, {"text": "FOR I=A TO B+2 STEP 2", "open": [I], "grp": 3},
    {"text": "FOR J=2 TO 1 STEP -1", "open": [J], "grp": 3},
    {"text": "FOR I=INT(A) TO INT(B)*2 STEP INT(C)", "open": [I], "grp": 3},
    {"text": "FOR J=VAL(A$) TO LEN(STR$(B)) STEP BUTTON(0)*2", "open": [J], "grp": 3},
    {"text": "NEXT", "close": [0]}, {"text": "NEXT I", "close": [I]}, {"text": "NEXT J", "close": [J]},
    {"text": "NEXT J,I", "close": [J, I]},
    {"text": "END", "last": True, "grp": 5}, {"text": "STOP", "last": True, "grp": 5}, {"text": "RETURN", "last": True, "grp": 5},
    {"text": "ON ERR GOTO 900", "grp": 6}, {"text": "ON BRK GOTO 900", "grp": 7},
]
PLAIN = [
    "B=B+1", "LET C=A*2-1", "A$=\"HI\"", "LET B$=A$+\"!\"", "C(1)=2", "C$(2)=\"Q\"", "D(1,2)=3", "Z=C(1)+D(1,2)",
    "Z=A^2/3", "Z=-A+(B*2)", "Z=NOT A", "Z=A AND 3 OR B", "Z=&HFF+&H10", "Z=1.5E2+.5", "Z=1E-2",
    "Z=ABS(A)+SGN(B)+FIX(C)+SQR(4)+LEN(A$)+ASC(\"A\")+PEEK(1024)+RND(10)",
    "Z=SIN(A)+COS(A)+TAN(A)+ATN(A)+EXP(1)+LOG(2)", "Z=INT(A/2)", "Z=VAL(A$)", "Z$=STR$(A)", "Z$=HEX$(255)", "Z$=CHR$(65)",
    "Z$=LEFT$(A$,2)+RIGHT$(A$,1)+MID$(A$,2,1)", "Z=INSTR(1,A$,\"I\")", "Z$=STRING$(3,\"*\")", "Z$=INKEY$",
    "Z=BUTTON(0)", "Z=JOYSTK(1)", "Z=POINT(1,2)", "Z=VARPTR(A)", "Z=ERNO",
    "PRINT", "PRINT A", "PRINT A;B$", "PRINT \"A=\";A,B", "PRINT A;", "PRINT ,A", "?A", "PRINT TAB(5);A$", "PRINT A$\"X\"B$",
    "PRINT @32,\"HI\";A", "PRINT @A+1", "PRINT @0,", "PRINT -A\"DEG\"", "PRINT NOT A B$", "PRINT +A\"X\"-B", "PRINT (A)\"X\"C(1)\"Y\"", "PRINT \"X\"-A;-B",
    "PRINT @5,-A\"Z\"", "Z=A=>B", "Z=A=<B", "Z=(A<=B)+(A>=B)+(A<>B)",
    "INPUT A", "INPUT \"N\";A,B$", "LINE INPUT A$", "LINE INPUT \"L\";B$", "INPUT C(1)",
    "READ A", "READ B$,C(1)", "RESTORE", "DATA 1,2,HELLO", "DATA \"A,B\",X Y,-3,1.5", "DATA &HFF,7", "DATA ,", "DATA A:B=1",
    "DIM E(5)", "DIM F(2,3),G$(4)", "DIM H(1,2,3)", "DIM Q$,R", "DIM S(&HA)",
    "REM HELLO: WORLD", "'COMMENT", "CLEAR 200", "CLEAR", "TRON", "TROFF",
    "A$=\"OPEN",
]
NOFOLLOW = {"REM HELLO: WORLD", "'COMMENT", "A$=\"OPEN", "DATA 1,2,HELLO", "DATA \"A,B\",X Y,-3,1.5", "DATA &HFF,7", "DATA ,"}


def device_statements():
    out = []
    for form in DEVICE_FORMS:
        n = nslots(form)
        out.append(instantiate(form, ["var"] * n, "var").replace("S$", "A$"))
        if n:
            out.append(instantiate(form, ["lit"] * n, "lit"))
            # (a lost operand must leave a hole: INT(A)*2, not INT(A)+1 whose remains "+ 1" still parse)
            out.append(re.sub(r"INT\((\w)\)\+\d", r"INT(\1)*2", instantiate(form, ["conv"] * n, "conv").replace("S$", "A$")))
    seen = []
    for s in out:
        if s not in seen:
            seen.append(s)
    return seen


def palette():
    pal = [dict(p) for p in CONTROL]
    for s in PLAIN:
        pal.append({"text": s, "last": s in NOFOLLOW, "grp": 0})
    for s in device_statements():
        pal.append({"text": s, "last": s.startswith("IF "), "grp": 0})
    return pal


TAIL = ["900 PRINT \"END\":END", "910 B=B+10:RETURN", "920 RETURN"]
EDGE = [
    ["10 NEXT"], ["10 FOR I=1 TO 2", "20 NEXT", "30 NEXT"], ["10 DO=2:PRINT DO"], ["10 PI=3:SQ=4"], ["10 FOR DO=1 TO 2:NEXT DO"],
    ["10 INPUT DO", "20 READ PI", "30 DATA 1"], ["0 A=1", "10 GOTO 0"], ["0 A=1", "10 B=2"], ["10 A$=\"QUOTE", "20 B=1"],
    ["10 PRINT \"A:B\":REM X\"Y"], ["10 IF A THEN IF B THEN IF C THEN D=1 ELSE D=2 ELSE D=3"],
    ["10 FOR I=1 TO 2:FOR J=1 TO 2:NEXT:NEXT"], ["10 ON ERR GOTO 30:ON BRK GOTO 30", "30 END"],
    ["10 A=1:::B=2", "20 :C=3"], ["10 DATA", "20 READ A$"], ["10 PRINT A B"], ["10 HPRINT(1,2),A+1"],
    ["10 IF A=1 THEN 30 ELSE 30", "30 'X"], ["10 DATA INCH,A\"B,C", "20 READ A$,B$,C$"], ["10 DATA \"ABC", "20 READ A$"], ["10 DATA DON'T,STOP", "20 READ A$,B$"], ["10 FOR I=1 TO 3:IF I=2 THEN NEXT I"],
]
OPTION_BITS = ["filter_unused_linenum", "initialize_vars", "default_width32", "output_dependencies", "add_standard_prefix", "add_suffix"]


def option_sets(rng, n, sizes=(32, 80), pdeps=0.5):
    """n random option dictionaries for convert() (procname given when dependencies are output)"""
    out = []
    for _ in range(n):
        o = {b: rng.random() < (pdeps if b == "output_dependencies" else 0.5) for b in OPTION_BITS}
        o["default_str_storage"] = rng.choice(sizes)
        if o["output_dependencies"]:
            o["procname"] = rng.choice(["prog", "a_b", "x1"])
        out.append(o)
    return out
